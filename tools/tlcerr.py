#!/usr/bin/env python3
"""Condense a TLC error trace: which invariant/property failed and the op history of the last state."""
import sys, re
txt = sys.stdin.read()
for m in re.finditer(r"Error: (Invariant \S+ is violated|Action property \S+ is violated|.*)", txt):
    if 'behavior up to' in m.group(0): continue
    print(m.group(0))
# last "hist = " block
idx = txt.rfind("/\\ hist =")
if idx >= 0:
    blk = txt[idx:]
    end = blk.find("\n/\\ ", 5)
    ops = re.findall(r'op \|-> "(\w+)"|idx \|-> (-?\d+)|n \|-> (<<[\d, ]+>>) *\]', blk[:end if end > 0 else None])
    ops = ["".join(o) for o in ops]
    print("hist ops:", ops)
idx = txt.rfind("/\\ lastOp =")
if idx >= 0:
    blk = txt[idx:]
    end = blk.find("\n/\\ ", 5)
    print(re.sub(r"\s+", " ", blk[:end if end > 0 else 400])[:600])
for m in re.finditer(r"^\d+ states generated.*$|^The depth of.*$|^Finished in.*$", txt, re.M):
    print(m.group(0))
