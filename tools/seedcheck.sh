#!/bin/bash
# seedcheck.sh <ID> [props...] : confirms a seeded change delivered in /tmp/mut/<ID>-out (patch.diff, demo.cpp), then runs the given
# checks (default: the property itself) against /repo with the patch applied, and undoes it. Results are appended to seeded/<ID>/meta.json by hand.
set -u
ID=$1; shift; PROPS=${@:-$ID}
OUT=/tmp/mut/$ID-out
W=$(mktemp -d /tmp/seedw.XXXX)
git -C /repo worktree add -q --detach $W HEAD
cd $W
echo "== demo on unchanged tree"; g++ -std=c++11 -I$W/include $W/src/*.cpp $OUT/demo.cpp -o $W/demo0 -lpthread 2>&1 | tail -3; (cd $OUT && $W/demo0 >/dev/null 2>&1; echo "exit=$?")
git apply $OUT/patch.diff 2>/dev/null || patch -s -p1 -F3 < $OUT/patch.diff || { echo "PATCH DOES NOT APPLY"; }
echo "== demo with the change"; g++ -std=c++11 -I$W/include $W/src/*.cpp $OUT/demo.cpp -o $W/demo1 -lpthread 2>&1 | tail -3; (cd $OUT && $W/demo1 2>&1 | tail -2; echo "exit=${PIPESTATUS[0]}")
echo "== test suite with the change"
mkdir -p $W/external && rm -rf $W/external/gtest && cp -r /repo/external/gtest $W/external/gtest 2>/dev/null
cmake -G Ninja -S $W -B $W/_b -DBUILD_TESTS=ON -DBUILD_EXAMPLE=OFF -DCMAKE_BUILD_TYPE=Release >/dev/null 2>&1 && cmake --build $W/_b -j8 >/dev/null 2>&1 && (cd $W/_b && ./runUnitTests 2>&1 | tail -2)
cd /; git -C /repo worktree remove --force $W
for P in $PROPS; do
  echo "== check $P with the change applied to /repo"
  (git -C /repo apply $OUT/patch.diff 2>/dev/null || (cd /repo && patch -s -p1 -F3 < $OUT/patch.diff)) && (cd /verif && bin/check $P quick 2>&1 | grep "^VIOLATION\|^  \|^\[$P\]\|INFRA" | cut -c1-260 | head -8)
  git -C /repo checkout -- . ; find /repo/src /repo/include -name '*.orig' -delete -o -name '*.rej' -delete
done
git -C /repo status --short | grep -v _build
