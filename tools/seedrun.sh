#!/bin/bash
# seedrun.sh <seed-id> [props...] : runs the given checks (default: the property the seed breaks) against a scratch copy of /repo's
# working tree with seeded/<seed-id>/patch(.rebased).diff applied, using a private snapshot of /verif, so that neither /repo nor
# /verif is touched (EZC3D_REPO is honoured by tools/vlib.py for exactly this purpose). Prints one line per check:
#   SEED <id> <prop> <tier> rc=<rc> <first VIOLATION line or summary>
# TIER=quick|thorough (default quick).  KEEP=1 keeps the scratch directories.
set -u
ID=$1; shift
V="$(cd "$(dirname "${BASH_SOURCE[0]}")/.." && pwd)"
PROP=$(echo $ID | cut -c1-3); PROPS=${@:-$PROP}; TIER=${TIER:-quick}
S=$(mktemp -d /tmp/seedrun.$ID.XXXX)
mkdir -p $S/repo $S/verif
rsync -a --exclude .git --exclude '_b*' --exclude build /repo/ $S/repo/
rsync -a --exclude .git --exclude _build --exclude seeded --exclude evidence --exclude replays $V/ $S/verif/; mkdir -p $S/verif/evidence
P=$V/seeded/$ID/patch.rebased.diff; [ -f $P ] || P=$V/seeded/$ID/patch.diff
(cd $S/repo && (git apply $P 2>/dev/null || patch -s -p1 -F3 < $P)) || { echo "SEED $ID PATCH DOES NOT APPLY"; rm -rf $S; exit 2; }
if [ "${CONFIRM:-0}" = 1 ]; then
  D=$V/seeded/$ID/demo.cpp; FL=""; grep -q "fsanitize=thread" $V/seeded/$ID/NOTES.md 2>/dev/null && FL="-fsanitize=thread -O1 -g"
  CXX=g++; [ -n "$FL" ] && CXX=clang++-14
  $CXX -std=c++11 $FL -I/repo/include /repo/src/*.cpp $D -o $S/demo0 -lpthread 2>&1 | grep -m2 error; (cd $S && ./demo0 >/dev/null 2>&1; echo "SEED $ID demo unchanged exit=$?")
  $CXX -std=c++11 $FL -I$S/repo/include $S/repo/src/*.cpp $D -o $S/demo1 -lpthread 2>&1 | grep -m2 error; (cd $S && ./demo1 >/dev/null 2>&1; echo "SEED $ID demo changed exit=$?")
  (cd $S/repo && cmake -G Ninja -S . -B _b -DBUILD_TESTS=ON -DBUILD_EXAMPLE=OFF -DCMAKE_BUILD_TYPE=Release >/dev/null 2>&1 && cmake --build _b -j8 >/dev/null 2>&1 && cd _b && echo "SEED $ID suite: $(./runUnitTests 2>&1 | tail -1)")
  rm -rf $S/repo/_b
fi
for Q in $PROPS; do
  (cd $S/verif && EZC3D_REPO=$S/repo timeout 3600 bin/check $Q $TIER > $S/out.$Q 2>&1); rc=$?
  L=$(grep -m1 "^VIOLATION" $S/out.$Q | cut -c1-200); [ -n "$L" ] || L=$(grep -m1 "^\[$Q\]\|INFRA" $S/out.$Q | cut -c1-200)
  echo "SEED $ID $Q $TIER rc=$rc $L"
  grep "^  " $S/out.$Q | head -4 | cut -c1-240
done
[ "${KEEP:-0}" = 1 ] && echo "kept $S" || rm -rf $S
