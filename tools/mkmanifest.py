#!/usr/bin/env python3
"""Regenerates /verif/MANIFEST.json from the table below (one place to edit)."""
import json, os
V = "/verif"
CHECKS = {
 # id: (category, technique, text, note, design_ref)
 "C05": ("model_checking", "TLA+ spec (EzObject/EzApi) model-checked by TLC on MC_Shape; every TLC transition replayed on the real object (state equality)",
         "TLC checks the Agreement invariants in every reachable state of the bounded instance (all interleavings of declare/rate/frame/column calls); every transition of that instance is then executed on the real object and the full projected state compared, so the code is shown to follow the specification that satisfies the property.",
         "bounded instance (quick: 2 points, 1 channel, 2 frames, TLC explores and checks every transition and a seeded random quarter of them is replayed - each with its whole path from Init - plus 8 random histories validated by EzTrace.tla; thorough: 3 points, 3 frames, every transition replayed, 64 random histories); rates from an exact table; spec transcribed by hand from src/ezc3d.cpp; g++ -O1 build", "6/C05"),
 "C07": ("model_checking", "TLA+ outcome table (FrameOutcome/PointColsOutcome/AnalogColsOutcome) + ConformingAccepted invariant in TLC; outcome class of every transition compared on the real object",
         "The documented refusal table is an operator of the specification; TLC checks the converse clause (conforming frames are accepted) as an invariant on all reachable states, and the exception class of every (state, call) pair of the bounded instance is compared with the real call.",
         "same bounds as C05; exception classes reduced most-derived-first as binding/ezc3d.i does", "6/C07"),
 "C10": ("model_checking", "action property RefusedUnchanged in TLC + replay of every refused transition comparing the real object's full state before and after the throwing call",
         "Refused calls are self-loops of the specification; each is replayed on the real object, whose complete projected state before and after the throwing call must be identical (checked independently of the specification) and equal to the specification's state.",
         "same bounds as C05; alphabets contain partly invalid arguments (second new point duplicate, short frame, refused sets)", "6/C10"),

 "C06": ("model_checking", "TLC action properties FrameStoreOK/ColumnsOK on MC_Frames (payload tags) + replay of every transition comparing all frames",
         "Append / replace / extend and the column adders are action properties checked by TLC on every transition of the bounded instance (every data-set size up to the bound, every target index incl. count+1, distinguishable payloads); every transition is replayed on the real object and all stored frames are compared bit for bit.",
         "three configurations of MC_Frames (caller objects; gaps + in-place edits; point and channel columns), up to 3 frames, index up to count+2; quick replays a seeded random 1/2 - 1/6 sample of the transitions TLC explored (each with its whole path), thorough all of them; one declared shape family (1-2 points, 1-2 channels, 2 sub-frames)", "6/C06"),
 "C08": ("model_checking", "value-semantics TLA+ model with caller-side frame objects (CallerNew/CallerMutate/AddFrame by reference/EditStored) checked by TLC (CallerIndependent) + replay on real Frame objects mutated in place",
         "The specification has value semantics: caller-side edits and in-place edits of one stored frame change nothing else. TLC explores every interleaving of handing over, mutating and re-submitting a caller frame object with appends, indexed stores, in-place edits and column adders; each transition is replayed with a real, long-lived Frame object mutated through the public non-const accessors.",
         "one caller frame object, 2 payload tags; same three configurations and sampling as C06", "6/C08"),
 "C09": ("model_checking", "TLC action properties ParamEditOK/LockOK + invariant ShapeRule on MC_Params; every (type, #values, dimension) triple of the alphabet replayed from every reachable state",
         "Find-or-create group, replace-in-place-or-append, lock toggles and the typed setters are checked as action properties on all transitions; the shape predicate is enumerated over all (type, value count, dimension argument) triples of the bounded alphabet and each becomes an implementation test per reachable state.",
         "quick: 0..2 values x 9 dimension arguments x 3 types; thorough: 0..3 values x 17 dimension arguments (up to 8 entries); byte type has no setter in the API (covered through files in C02/C04)", "6/C09"),
 "C11": ("model_checking", "GetResult operator (position / first exact name / typed getter) with invariants LookupConsistent and NamesTrimmed in TLC; every (state, look-up) pair replayed and result + exception class compared",
         "Every positional and by-name look-up and typed value getter is an action of the specification; TLC checks that by-name and positional look-ups agree and that stored names are trimmed in every reachable state, and every (state, query) pair incl. indices size, size+1, 2^32, 2^64-1 and absent / case-variant / space-padded names is executed on the real object.",
         "container sizes 0..2; 2^32 and 2^64-1 as tokens; names given with trailing spaces through declaration, setter and naming constructor", "6/C11"),

 "C01": ("model_checking", "TLA+ file-format model (WriterModel/ReaderModel in C3DFormat.tla): TLC checks RoundTrip (Content(ReaderModel(WriterModel(obj))) = Content(obj)) in every state of MC_IO; every transition incl. save+load replayed on real files (bytes and reloaded state compared)",
         "TLC evaluates the writer and reader models in every reachable state of the bounded instance and checks that the content (parameters with type/dims/values/description/lock, groups, every point's 4 x 4 bytes, every analog sample, header counts) survives; the real writer's bytes must equal the writer model's bytes and the real reloaded object must equal the reader model's object, so the real round trip is the model's round trip.",
         "bounded instance (1-2 points, 1 channel, 2 sub-frames, up to 1 (quick) / 2 (thorough) frames, int/float/string/multi-dimensional/empty parameters, lower-case names, descriptions, locks); known finding: gap frames", "6/C01"),
 "C03": ("model_checking", "TLC invariant SelfConsistent(WriterModel(obj)) (pointer-following chain decoder in TLA+) in every state of MC_IO + byte equality between the writer model and the real saved file on every save",
         "SelfConsistent follows only the file's own pointers (header word 1, header word 9, POINT:DATA_START, block count, next-offsets, terminator, padding, counts, data size, float marker); TLC proves it for the writer model in every reachable state, and every real save of the replay must be byte-identical to the writer model's output.",
         "bounded instance as C01; alignment residues are those reached by the parameter alphabet (a dedicated residue sweep is in the thorough tier); known findings: scale word, gap frames", "6/C03"),
 "C04": ("model_checking", "TLC invariant SaveIdempotent (load-save-load content preserved, generation 2 bytes = generation 3 bytes) on MC_IO + replay of second-generation save/load on real files",
         "From every reachable object TLC saves, loads, saves and loads again in the model and requires equal content and byte-identical generations; the replay performs the same generations with the real library (states and bytes compared with the model).",
         "files are those ezc3d writes for the bounded instance; foreign layouts (sparse ids, padded strings, byte type) are covered by the layout-variant slice", "6/C04"),
 "C14": ("model_checking", "Save is UNCHANGED obj and a function of obj in the specification; replay compares the real object's full state before/after every save and the bytes of two consecutive saves; memcheck/MALLOC_PERTURB legs for definedness",
         "Every save of the replay is checked for purity (projected state identical before and after), repeatability (second save byte-identical) and equality with the writer model, which is a function of the abstract state only - a byte that depends on anything else (uninitialised or unrelated memory) cannot match the model in two differently perturbed runs.",
         "definedness relies on byte equality with the model under two MALLOC_PERTURB_ fill values (thorough) and on memcheck as sensor", "6/C14"),

 "C02": ("model_checking", "spec-level encoder EncodeWith over layout variants + independent decoder Decode in TLA+ (ASSUME FormatOracle checked by TLC) ; every generated file loaded by the real reader and compared with the reader model's object",
         "80 files (10 content shapes x 8 layouts: leading zeros, parameter block 3, zeroed prologue, reversed/out-of-order ids, sparse ids, 1-element arrays, combinations; contents with events, shifted first frame, fewer/more labels, empty ANALOG group, byte/3-D/padded-string/long-description/locked parameters, analog-only, point-only, empty) are produced inside TLC; TLC checks that the pointer-following decoder returns the encoded content and that the reader model agrees; the real reader must produce exactly the reader model's object for every file.",
         "content shapes up to 2 points x 2 channels x 2 sub-frames x 2 frames; encoder and decoder are both written from the format document by the same author (a shared misreading would go unnoticed; cross-checked on ezc3d's own files through C03)", "6/C02"),
 "C12": ("model_checking", "TLC evaluates the byte/word conversion lemmas over all 2^8 / 2^16 values; spec-generated pattern files (all byte values, all 16-bit values, header-word boundaries, float sign x exponent classes) loaded and re-saved by the real code, values and bytes compared with the model",
         "The integer spaces are enumerated completely (exhaustive over 2^8 and 2^16, both in TLC's lemmas and in the files given to the real reader); floats are covered per (sign, exponent) class with four mantissas; after loading, the values must equal the model's and a re-save must reproduce the bytes.",
         "float space is sampled by class (256 exponents x 2 signs x 4 mantissas), not exhaustively; POINT:RATE / ANALOG:RATE keep table values (they are interpreted arithmetically)", "6/C12"),
 "C13": ("exploration", "histories = transitions of the TLA+ slices (MC_Shape, MC_IO, MC_Params, MC_Lookup, MC_Frames), executed under ASan+UBSan+_GLIBCXX_ASSERTIONS; a sanitizer report is a 'crash' result of that history",
         "The specification decides which executions are run (every transition of the bounded slices incl. refused calls, look-ups at and beyond the size, save/load, destruction); the sensor for the memory error itself is the sanitizer build. quick samples every 8th transition (each case executes its whole path from Init), thorough runs all of them.",
         "sensor = clang 14 ASan/UBSan; memory errors that need inputs outside the slices' alphabets are not reached", "6/C13"),
 "C15": ("fault_enumeration", "EzFault.tla (SaveUnderFault) model-checked by TLC; every save-under-fault of the real library recorded as an event and validated by TLC against EzFaultTrace.tla (trace validation)",
         "Faults are enumerated against the real code through the operating system: unopenable destinations (missing directory, directory, read-only file as an unprivileged uid), /dev/full, and RLIMIT_FSIZE = k for every byte offset k of the smallest object and boundary / sampled offsets of four larger ones (thorough: every offset of every object). Each observation must be a step of the specification: normal return only with the complete content on disk, I/O failure otherwise.",
         "write errors the OS reports only at a later fsync are outside the model", "6/C15"),

 "C16": ("exploration", "corruption space and outcome language specified in EzCorrupt.tla (TLC enumerates truncations, boundary overwrites, structure-aware field and pair corruptions from the decoder's own record parser); every load of the real reader recorded and validated by TLC against EzCorruptTrace.tla",
         "TLC emits one descriptor per corruption that changes at least one byte of a seed file; each damaged file is loaded in a forked ASan/UBSan child with an allocation budget (64 x size + 16 MiB per request) and a wall-clock limit; the recorded outcome must be a Load step of the specification (loaded / refused by a standard exception); a signal, sanitizer report, non-standard exception, over-budget allocation or timeout has no action and rejects the trace.",
         "seeds are files written by the real writer (plus a leading-zeros variant); overwrites sweep every 7th offset in quick and every offset in thorough; sensors: ASan/UBSan (float-cast-overflow excluded: not a memory error), replaced operator new, alarm()", "6/C16"),

 "C17": ("exploration", "capacity predicate Fits in C3DFormat.tla (used by the Reload action of every I/O slice) + EzLimits.tla decision rule model-checked by TLC; boundary driver events validated by TLC against EzLimitsTrace.tla",
         "For every capacity limit L of the format (description 255, names 127, dimension entry 255, 7 dimensions, 255 points / channels / strings, 32767 frames, 16-bit integer extremes, 65535-byte record, 255 parameter blocks) content at L-1, L, L+1 and far beyond, alone and in pairs, is built through the public API, saved and loaded; TLC validates each observation against the rule: within the limits save and load succeed with the same content, beyond them the save throws or the file still loads to the same content.",
         "content equality by a Python mirror of C3DFormat.Content; group descriptions and first-frame numbers are not settable through the API (files only)", "6/C17"),

 "C19": ("model_checking", "the specification's transitions (MC_IO, MC_Format bit patterns; thorough: layouts, params, look-ups) with expected states / exception classes / saved bytes replayed in six builds {-O0,-O2,-O3} x {static, shared}; plus byte-identical event streams on a damaged-file / print / vendor-file corpus",
         "Every action of the specification is a function of state and arguments, so a configuration-dependent result cannot be a behaviour of the specification in two builds at once: each of the six builds must follow the specification on every transition of the slices (values as bit patterns, exception classes, saved bytes), and a second corpus without expected values (loads of damaged files, print() output hash, vendor files load/save/load) must yield byte-identical event streams in all builds.",
         "one compiler family (g++ 12); the six builds share the harness source", "6/C19"),

 "C18": ("exploration", "EzThreads.tla (threads over disjoint objects; TLC enumerates every call-granularity interleaving) ; interleavings forced on real threads by token passing, plus free-running rounds under ThreadSanitizer; every thread's results compared with the single-thread specification (replay of MC_IO paths)",
         "Independence is defined by the specification (no shared object, no shared path; a thread's state is a function of its own calls). TLC enumerates all interleavings of 2 threads x 3 calls and 3 threads x 2 calls (thorough: also 2 x 4 and 3 x 3); each is forced on real threads, and 60 (quick) / 600 (thorough) rounds of 8 free-running threads replay paths of the I/O slice (construct, declare, frames, save and load in their own directories, destroy) under ThreadSanitizer. Each thread must observe exactly the states, exception classes and file bytes the specification predicts for its own sequence; a TSan report or abnormal exit is a violation.",
         "instruction-level schedules are sampled by the OS scheduler, not enumerated; clang 14 TSan is the race sensor", "6/C18"),
}
NA = {
}
def main():
    props = [json.loads(l)["id"] for l in open(os.path.join(V, "properties.jsonl"))]
    checks = []
    for pid in props:
        if pid not in CHECKS: continue
        cat, tech, text, note, ref = CHECKS[pid]
        checks.append({"property_id": pid, "quick_cmd": "bin/check %s quick" % pid, "thorough_cmd": "bin/check %s thorough" % pid,
                       "evidence_file": "evidence/%s.json" % pid, "replay_cmd_template": "bin/check %s --replay {path}" % pid,
                       "engine": "tlc+ezdrive", "level_claimed": {"category": cat, "text": text, "design_ref": "DESIGN.md section " + ref},
                       "level_note": note, "technique": tech})
    na = [{"property_id": p, "reason": NA.get(p, "machinery under construction (DESIGN.md section 6); will be claimed once its check exists")}
          for p in props if p not in CHECKS]
    hooks = json.load(open(os.path.join(V, "MANIFEST.json")))["hooks"]
    m = {"version": 1, "setup_cmd": "bin/setup", "hooks": hooks,
         "engines": [{"name": "tlc+ezdrive", "path": "tools/check.py", "serves_properties": sorted(CHECKS),
                      "kind_free_text": "TLA+ specification in spec/ checked by TLC; conformance by replaying TLC's transitions into harness/ezdrive (C++, links /repo/src) and by validating recorded traces against spec/EzTrace.tla"}],
         "checks": checks, "not_applicable": na,
         "notes": "Exit 2 + 'INFRA-ERROR' = build/TLC failure, never a verdict. Findings ledger: known_findings.json."}
    json.dump(m, open(os.path.join(V, "MANIFEST.json"), "w"), indent=1)
    print("checks:", [c["property_id"] for c in checks], "n/a:", len(na))
main()
