#!/usr/bin/env python3
"""Regenerates /verif/MANIFEST.json from the table below (one place to edit)."""
import json, os
V = "/verif"
CHECKS = {
 # id: (category, technique, text, note, design_ref)
 "C05": ("model_checking", "TLA+ spec (EzObject/EzApi) model-checked by TLC on MC_Shape; every TLC transition replayed on the real object (state equality)",
         "TLC checks the Agreement invariants in every reachable state of the bounded instance (all interleavings of declare/rate/frame/column calls); every transition of that instance is then executed on the real object and the full projected state compared, so the code is shown to follow the specification that satisfies the property.",
         "bounded instance (quick: 2 points, 1 channel, 2 frames; thorough: 3 points, 3 frames); rates from an exact table; spec transcribed by hand from src/ezc3d.cpp; g++ -O1 build", "6/C05"),
 "C07": ("model_checking", "TLA+ outcome table (FrameOutcome/PointColsOutcome/AnalogColsOutcome) + ConformingAccepted invariant in TLC; outcome class of every transition compared on the real object",
         "The documented refusal table is an operator of the specification; TLC checks the converse clause (conforming frames are accepted) as an invariant on all reachable states, and the exception class of every (state, call) pair of the bounded instance is compared with the real call.",
         "same bounds as C05; exception classes reduced most-derived-first as binding/ezc3d.i does", "6/C07"),
 "C10": ("model_checking", "action property RefusedUnchanged in TLC + replay of every refused transition comparing the real object's full state before and after the throwing call",
         "Refused calls are self-loops of the specification; each is replayed on the real object, whose complete projected state before and after the throwing call must be identical (checked independently of the specification) and equal to the specification's state.",
         "same bounds as C05; alphabets contain partly invalid arguments (second new point duplicate, short frame, refused sets)", "6/C10"),
}
NA = {
}
def main():
    props = [json.loads(l)["id"] for l in open(os.path.join(V, "properties.jsonl"))]
    checks = []
    for pid in props:
        if pid not in CHECKS: continue
        cat, tech, text, note, ref = CHECKS[pid]
        checks.append({"property_id": pid, "quick_cmd": "bin/check %s quick" % pid, "thorough_cmd": "bin/check %s thorough" % pid,
                       "evidence_file": "evidence/%s.json" % pid, "replay_cmd_template": "bin/check %s --replay {path}" % pid,
                       "engine": "tlc+ezdrive", "level_claimed": {"category": cat, "text": text, "design_ref": "DESIGN.md section " + ref},
                       "level_note": note, "technique": tech})
    na = [{"property_id": p, "reason": NA.get(p, "machinery under construction (DESIGN.md section 6); will be claimed once its check exists")}
          for p in props if p not in CHECKS]
    hooks = json.load(open(os.path.join(V, "MANIFEST.json")))["hooks"]
    m = {"version": 1, "setup_cmd": "bin/setup", "hooks": hooks,
         "engines": [{"name": "tlc+ezdrive", "path": "tools/check.py", "serves_properties": sorted(CHECKS),
                      "kind_free_text": "TLA+ specification in spec/ checked by TLC; conformance by replaying TLC's transitions into harness/ezdrive (C++, links /repo/src) and by validating recorded traces against spec/EzTrace.tla"}],
         "checks": checks, "not_applicable": na,
         "notes": "Exit 2 + 'INFRA-ERROR' = build/TLC failure, never a verdict. Findings ledger: known_findings.json."}
    json.dump(m, open(os.path.join(V, "MANIFEST.json"), "w"), indent=1)
    print("checks:", [c["property_id"] for c in checks], "n/a:", len(na))
main()
