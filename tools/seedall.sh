#!/bin/bash
# seedall.sh [J] : regression over every stored seeded change (seeded/<id>/): each is applied to a scratch copy of /repo and the quick
# check(s) named in its meta.json (expected_to_be_caught_by) are run from a snapshot of /verif (tools/seedrun.sh). J seeds at a time
# (default 2). One line per (seed, check) is appended to seeded/RESULTS.txt; a seed is "caught" when a check exits 1 with a VIOLATION line.
set -u
V="$(cd "$(dirname "${BASH_SOURCE[0]}")/.." && pwd)"; J=${1:-2}
OUT=$V/seeded/RESULTS.txt; : > $OUT.new
ls $V/seeded | grep '^C' | xargs -P $J -I{} bash -c 'P=$(python3 -c "import json;print(\" \".join(json.load(open(\"'$V'/seeded/{}/meta.json\"))[\"expected_to_be_caught_by\"]))"); '$V'/tools/seedrun.sh {} $P 2>&1 | grep "^SEED" | cut -c1-160 >> '$OUT'.new'
sort $OUT.new > $OUT; rm -f $OUT.new
echo "caught: $(grep -c "rc=1 VIOLATION" $OUT)  not caught: $(grep -vc "rc=1 VIOLATION" $OUT)"; grep -v "rc=1 VIOLATION" $OUT
