#!/usr/bin/env python3
"""bin/check <ID> [quick|thorough] [--replay <path>] — the one entry point of every registered check.
exit 0: property held on everything explored (KNOWN-FINDING lines possible);
exit 1: a line 'VIOLATION property=<id> replay=<path>' was printed;
exit 2: infrastructure error (build failure, TLC failure) - never a verdict."""
import json, os, re, sys, time, random
sys.path.insert(0, os.path.dirname(os.path.abspath(__file__)))
import vlib
from vlib import log, Infra

# ------------------------------------------------------------------ replay-based properties (direction B)
FRAME_OPS = {"AddFrame", "AddFrameAlias", "DeclPoint", "DeclAnalog", "AddPointCols", "AddAnalogCols"}
CALLER_OPS = {"CallerNew", "CallerMutate", "EditStored"}
PARAM_OPS = {"SetParam", "SetParamAlias", "LockGroup", "UnlockGroup"}

def norm_path(p):
    return re.sub(r"\[\d+\]", "[*]", p)

def relevant(pid, case, d):
    """Does difference d (of replay case `case`) contradict property pid? Everything else is MODEL-DRIFT."""
    op = case["op"].get("op", "?")
    k, path = d["k"], d.get("path", "")
    if k == "crash":
        return True
    if pid == "C05":
        return k == "post" and (path.startswith("hdr.") or path.startswith("grp") or path.endswith(".#"))
    if pid == "C06":
        return op in FRAME_OPS and k == "post" and path.startswith("frm")
    if pid == "C07":
        return op in FRAME_OPS and k == "out"
    if pid == "C08":
        return k in ("post", "unchanged") and path.startswith("frm") and (op in CALLER_OPS or op in FRAME_OPS)
    if pid == "C09":
        return op in PARAM_OPS and (k in ("sets", "out") or (k == "post" and (path.startswith("grp") or path.startswith("hdr"))))
    if pid == "C10":
        if op == "SetParam" and k in ("post", "sets") and len(case["op"].get("p", {}).get("sets", [])) >= 2:
            return True          # sequences of typed sets exist to exercise refused sets: the Parameter must be as it was before the refused one
        return k == "unchanged" or (k == "out" and d.get("exp") != "ok" and d.get("act") == "ok") or \
               (k == "post" and case.get("actout", "ok") != "ok")
    if pid == "C11":
        return op == "Get" and k in ("res", "out")
    gen = sum(1 for o in case["path"] if o.get("op") in ("Reload", "LoadBytes"))     # how many loads precede this call (the object came from a file)
    bytes_bad = k == "bytes" and d.get("verdict") != "equivalent"     # layout differences that decode to the saved content are drift
    if pid == "C02":
        return op == "LoadBytes" and k in ("post", "out")
    if pid == "C12":
        return (op == "LoadBytes" and k in ("post", "out")) or (op == "Reload" and (k in ("post", "out", "resave") or bytes_bad))
    if pid == "C01":
        return op == "Reload" and gen == 0 and (k in ("post", "out") or bytes_bad)
    if pid == "C03":
        # the header block of a saved file is the in-memory header written verbatim: a header field that differs from the specification's
        # after any call is what the next save writes (the replay keeps one path per specification state, so the save that follows this
        # very history may be represented by another path)
        return (op == "Reload" and bytes_bad) or (k == "post" and re.match(r"hdr\.(npts|meas|nanalogs|first|last|nframes|perframe|rate)$", path) is not None)
    if pid == "C04":
        return op == "Reload" and gen >= 1 and (k in ("post", "out", "resave") or bytes_bad)
    if pid == "C14":
        # definedness: the writer model is a function of the object's content only, so a byte that differs from it is not determined by the
        # content (the harness saves over an existing longer file and into a heap whose contents vary between cases)
        return op == "Reload" and (k in ("purity", "repeat") or bytes_bad)
    if pid == "C13":
        return k == "crash"
    return False

def diff_key(pid, case, d):
    path = "bytes" if d["k"] == "bytes" else norm_path(d.get("path", ""))
    return "%s:%s:%s:%s%s" % (pid, case["op"].get("op", "?"), d["k"], path, (":" + d["verdict"]) if "verdict" in d else "")

# ------------------------------------------------------------------ findings ledger: probes for the open entries
def _run_ops(ez, ops):
    import subprocess
    d = vlib.scratch("probe")
    r = subprocess.run([ez, "run", "--dir", d], input="\n".join(json.dumps(o) for o in ops) + "\n", stdout=subprocess.PIPE, text=True, timeout=120)
    return [json.loads(l) for l in r.stdout.splitlines() if l.strip()]

RATE100 = {"op": "SetParam", "g": vlib.codes("POINT"), "p": {"n": vlib.codes("RATE"), "d": [], "l": 1, "sets": [{"t": 4, "v": [[0, 0, 200, 66]], "dim": [], "scalar": 1}]}}
def _pt(name, tag):
    return {"n": vlib.codes(name), "v": [[tag, 1, 1, 64], [tag, 1, 2, 64], [tag, 1, 3, 64], [tag, 1, 4, 64]]}

def probe_scale_word(ez):
    ev = _run_ops(ez, [{"op": "New"}, {"op": "Save", "path": "p.c3d", "bytes": 1, "post": 0}])
    b = ev[-1].get("bytes", [])
    return len(b) >= 16 and b[12:16] == [255, 255, 255, 255]
def probe_gap_frames(ez):
    ev = _run_ops(ez, [{"op": "New"}, RATE100, {"op": "DeclPoint", "n": vlib.codes("p1")},
                       {"op": "AddFrame", "idx": 1, "frame": {"p": [_pt("p1", 1)], "a": []}},
                       {"op": "Save", "path": "p.c3d", "bytes": 1}])
    if ev[-2]["out"] != "ok" or ev[-1]["out"] != "ok": return False
    post = ev[-1]["post"]; b = ev[-1]["bytes"]
    want = 2 * 16 * post["hdr"]["npts"]
    dpos = 512 * (post["prm"]["nblk"] or 0)
    datalen = len(b) - 512 * (b[16] + 256 * b[17] - 1)
    return len(post["frm"]) == 2 and post["hdr"]["npts"] == 1 and datalen != want
def probe_empty_shape_frames(ez):
    ev = _run_ops(ez, [{"op": "New"}, {"op": "AddFrame", "idx": -1, "frame": {"p": [], "a": []}}])
    post = ev[-1]["post"]
    frames_param = [p for p in post["grp"][0]["p"] if vlib.uncodes(p["n"]) == "FRAMES"][0]["v"][0]
    return ev[-1]["out"] == "ok" and len(post["frm"]) == 1 and frames_param == 1 and post["hdr"]["nframes"] == 0
def probe_zero_point_rate(ez):
    ops = [{"op": "New"}, _rate("ANALOG", F1000), {"op": "DeclAnalog", "n": vlib.codes("a1")},
           {"op": "AddFrame", "idx": -1, "frame": {"p": [], "a": [[{"n": vlib.codes("a1"), "v": [s, 1, 1, 65]}] for s in range(1, 4)]}},
           {"op": "Save", "path": "z.c3d"}, {"op": "Load", "o": 2, "path": "z.c3d"}]
    ev = _run_ops(ez, ops)
    if ev[-3]["out"] != "ok" or ev[-2]["out"] != "ok": return False
    saved = ev[-2]["post"]["frm"]
    if ev[-1]["out"] != "ok": return True
    return ev[-1]["post"]["frm"] != saved
PROBES = {"zero_point_rate": probe_zero_point_rate, "scale_word": probe_scale_word, "gap_frames": probe_gap_frames, "empty_shape_frames": probe_empty_shape_frames}

def known_findings(pid, ez):
    """Re-observes every open ledger entry of this property on the real code; prints KNOWN-FINDING for those that still fail."""
    n = 0
    for f in vlib.load_ledger():
        if f.get("status") != "open" or f.get("property") != pid: continue
        fn = PROBES.get(f.get("probe"))
        try:
            hit = bool(fn and fn(ez))
        except Exception as e:
            log("[ledger] probe %s could not run: %s" % (f.get("probe"), e)); hit = False
        if hit:
            log("KNOWN-FINDING: property=%s %s: %s" % (pid, f["key"], f["what"]))
            n += 1
        else:
            log("[ledger] open finding %s/%s is no longer observed on this tree" % (pid, f["key"]))
    return n

def judge_bytes_diffs(fails, limit=40):
    """Saved bytes that differ from the writer model are judged on what they decode to (spec/EzJudge.tla): SelfConsistent, reader model and
    independent decoder evaluated by TLC on the *real* bytes against the object that was saved. The verdict is attached to the difference."""
    todo = []
    for c in sorted(fails, key=lambda c_: c_["len"]):
        for d in c["diffs"]:
            if d["k"] == "bytes" and "actbytes" in d and "pre" in d and len(d["actbytes"]) < 40000:
                todo.append(d)
                break
        if len(todo) >= limit: break
    if not todo: return
    work = vlib.scratch("judge"); p = os.path.join(work, "cases.ndjson")
    with open(p, "w") as f:
        for d in todo: f.write(json.dumps({"pre": d["pre"], "bytes": d["actbytes"]}) + "\n")
    rc, out = vlib.run_tlc("EzJudge.tla", "EzJudge.cfg", workers=1, timeout=1500, env={"CASES": p})
    verdicts = {}
    for l in out.splitlines():
        if l.startswith('"{'):
            try:
                v = json.loads(json.loads(l)); verdicts[v["case"]] = v
            except ValueError: pass
    for i, d in enumerate(todo, 1):
        v = verdicts.get(i)
        d["verdict"] = "unjudged" if v is None else ("equivalent" if v["consistent"] and v["roundtrip"] and v["decodes"] else "differs:" + ",".join(kk for kk in ("consistent", "roundtrip", "decodes") if not v[kk]))
    # differences beyond the judged sample share the verdict of the sample when the sample is unanimous
    any_bad = any(d.get("verdict", "").startswith("differs") for d in todo)
    for c in fails:
        for d in c["diffs"]:
            if d["k"] == "bytes" and "verdict" not in d:
                d["verdict"] = "unjudged" if any_bad else "equivalent"
            d.pop("actbytes", None); d.pop("pre", None)

def report_replay(pid, results, tier, t0, level="model_checking", extra_cov=None, assumptions=(), trace=False):
    """results: list of (slice name, result of vlib.replay_slice). Prints verdict lines, writes evidence, returns exit code."""
    viol = {}     # key -> shortest case
    drift = {}
    states = transitions = cases = 0
    samples = []
    acthist = {}
    judge_bytes_diffs([c for _, res in results for c in res["fails"]])
    for name, res in results:
        if res["tlc_errors"]:
            raise Infra("TLC reported an error on the specification itself (%s): %s; last ops %s\n%s" %
                        (name, res["tlc_errors"][:3], res["trace_ops"], res["tlc_out_tail"][-1500:]))
        states += res["tlc"]["distinct"]; transitions += max(res["tlc"]["generated"] - 1, 0); cases += res["cases"]
        if res.get("keep_mod", 1) == 1 and res["cases"] < res["tlc"]["generated"] - 1:
            raise Infra("replayed %d of %d transitions of %s" % (res["cases"], res["tlc"]["generated"] - 1, name))
        for c in res["fails"]:
            gen0 = not any(o.get("op") in ("Reload", "LoadBytes") for o in c["path"])
            for d in c["diffs"]:
                if d["k"] == "resave" and gen0:
                    continue      # an object built through the API need not re-save to the same bytes after a load (C04 speaks of loaded files)
                key = diff_key(pid, c, d)
                tgt = viol if relevant(pid, c, d) else drift
                if key not in tgt or c["len"] < tgt[key][0]["len"]:
                    tgt[key] = (c, d)
        samples.extend(res.get("samples", [])[:3])
        for hk, hv in res.get("hist", {}).items(): acthist[hk] = acthist.get(hk, 0) + hv
        samples.append({"slice": name, "states": res["tlc"]["distinct"], "transitions": res["tlc"]["generated"] - 1,
                        "replayed": res["cases"], "mismatching_cases": len(res["fails"]), "depth": res["tlc"]["depth"]})
    for key, (c, d) in sorted(drift.items())[:20]:
        log("MODEL-DRIFT property=%s %s exp=%s act=%s after %s" % (pid, key, json.dumps(d.get("exp"))[:80], json.dumps(d.get("act"))[:80],
            [o.get("op") for o in c["path"]] + [c["op"].get("op")]))
    nviol = 0
    for key, (c, d) in sorted(viol.items(), key=lambda kv: kv[1][0]["len"])[:12]:
        p = vlib.save_replay(pid, key, {"property": pid, "kind": "replay", "key": key, "path": c["path"], "op": c["op"],
                                         "diffs": c["diffs"], "tier": tier})
        log("VIOLATION property=%s replay=%s" % (pid, p))
        log("  %s: expected %s, real object gave %s; history %s" % (key, json.dumps(d.get("exp"))[:120], json.dumps(d.get("act"))[:120],
            json.dumps([vlib.short_op(o) for o in c["path"]] + [vlib.short_op(c["op"])])[:700]))
        nviol += 1
    cov = {"states": states, "transitions": transitions, "traces_validated_against_impl": cases,
           "samples": samples, "model_drift_keys": len(drift), "exhaustive": all(res.get("keep_mod", 1) == 1 for _, res in results),
           "replayed_calls_by_action_and_expected_outcome": dict(sorted(acthist.items())),
           "rule": "every transition of the bounded TLA+ instance is exported by TLC and replayed (path from Init + the call) on a fresh real "
                   "object; the full projected state, the outcome class and (for refused calls) state-before = state-after are compared"}
    if extra_cov: cov.update(extra_cov)
    if trace and report_replay.ez:
        tcov, tviol = trace_leg(pid, report_replay.ez, tier)
        cov.update(tcov); nviol += tviol
        cov["traces_validated_against_impl"] = cases + tcov["random_histories_accepted"]
    if trace and pid == "C05":
        # the repository's own test suite, unedited, recorded through the guarded hooks and validated by EzTrace.tla
        import gtesttrace
        gcov, rej = gtesttrace.run()
        cov.update(gcov); cov["traces_validated_against_impl"] = cov.get("traces_validated_against_impl", cases) + gcov["gtest_objects_accepted"]
        for oid, desc in rej[:5]:
            rp = vlib.save_replay(pid, "gtest:%s" % desc[:60], {"property": pid, "kind": "corpus", "what": "history of c3d object %s of the repository's test suite rejected by EzTrace.tla" % oid, "rejection": desc})
            log("VIOLATION property=%s replay=%s" % (pid, rp)); nviol += 1
            log("  the recorded history of c3d object %s of the repository's own tests is not a behaviour of the specification: %s" % (oid, desc))
    if "known_findings_observed" not in cov and report_replay.ez:
        cov["known_findings_observed"] = known_findings(pid, report_replay.ez)
    vlib.write_evidence(pid, tier, level, cov, time.time() - t0, len(viol) + (nviol - min(len(viol), 12)), assumptions)
    log("[%s] %s: %d states, %d transitions, %d replayed on the implementation, %d violation keys, %d drift keys, %.0fs" %
        (pid, tier, states, transitions, cases, len(viol), len(drift), time.time() - t0))
    return 1 if nviol else 0

# ------------------------------------------------------------------ direction A: random histories validated by EzTrace.tla
def trace_leg(pid, ez, tier):
    """Seeded random histories (sizes beyond the model bounds) recorded from the real library and validated line by line by TLC
    against spec/EzTrace.tla. Returns (coverage dict, number of violations reported)."""
    import randhist, concurrent.futures
    work = vlib.scratch("trace")
    nhist, steps = (8, 40) if tier == "quick" else (64, 80)
    paths, nev = randhist.generate(ez, vlib.seed(), nhist, steps, os.path.join(work, "hist"))
    def val(p):
        return p, vlib.validate_trace("EzTrace.tla", "EzTrace.cfg", p, timeout=1500)
    with concurrent.futures.ThreadPoolExecutor(max_workers=8) as ex:
        res = list(ex.map(val, paths))
    nviol = 0; accepted = 0
    for p, (ok, at, summ, out) in res:
        if ok: accepted += 1; continue
        ok2, at2, _, out2 = vlib.validate_trace("EzTrace.tla", "EzTrace.cfg", p, timeout=1500)       # report only what repeats
        if ok2: accepted += 1; continue
        m = re.search(r'obs = (<<"line".*?)\n/\\', out2, re.S)
        inv = [e for e in vlib.tlc_errors(out2) if "Invariant" in e or "property" in e.lower()]
        desc = re.sub(r"\s+", " ", m.group(1))[:400] if m else ("no specification action matches line %s" % at2 if at2 else "; ".join(inv)[:300])
        lines = open(p).read().splitlines()
        k = None
        mm = re.search(r'<<"line", (\d+)', desc)
        if mm: k = int(mm.group(1))
        elif at2: k = at2
        evs = [json.loads(x) for x in lines[:k]] if k else [json.loads(x) for x in lines]
        rp = vlib.save_replay(pid, "trace:" + desc[:80], {"property": pid, "kind": "trace", "events": [{"e": e["e"], "args": e["args"], "out": e["out"]} for e in evs], "rejection": desc})
        log("VIOLATION property=%s replay=%s" % (pid, rp)); nviol += 1
        log("  recorded history rejected by EzTrace.tla: %s; calls: %s" % (desc, [e["e"] for e in evs][-12:]))
    cov = {"random_histories": nhist, "random_history_events": nev, "random_histories_accepted": accepted,
           "random_history_rule": "seeded adaptive random histories (<= 6 points, 3 channels, 3 sub-frames, 8 frames, parameters with <= 7 dimensions, 200-character "
                                  "descriptions, save/load generations, refused calls) recorded from the real library and validated line by line by TLC against EzTrace.tla "
                                  "(spec action + recorded outcome + full projected state + invariants after every line)"}
    return cov, nviol

report_replay.ez = None
SHAPE_ASSUME = ["rates are float bit patterns: small integers, and in MC_Rates 0.25, 0.5, 100.005, 119.88, 120000/1001; the specification models the single-precision "
                "operations the code performs on them (truncation, x 10000 comparison key, IEEE division with round-to-nearest-even) in integer arithmetic",
                "TLC explores the bounded instance completely; larger sizes rest on data independence (values are opaque 4-byte tuples)"]

def shape_consts(tier):
    if tier == "quick":
        return {"NP": 2, "NA": 1, "MaxFrames": 2, "MaxPts": 2, "MaxCh": 1, "IdxSlack": 2}
    return {"NP": 2, "NA": 1, "MaxFrames": 3, "MaxPts": 2, "MaxCh": 1, "IdxSlack": 2}      # 334 433 states, 12.4 M transitions (NP = 3 / MaxPts = 3 did not finish in 75 min)

def run_shape(pid, tier, t0):
    ez = report_replay.ez = vlib.build("plain")
    # TLC explores and checks every transition in both tiers; one in 8 (quick: 992 560 transitions) / one in 12 (thorough: 12.4 M) is replayed, each with its whole path
    res = vlib.replay_slice("MC_Shape.tla", "MC_Shape.cfg", shape_consts(tier), ez, tag="shape", timeout=9000, sample_k=8 if tier == "quick" else 12)
    results = [("MC_Shape", res)]
    if pid in ("C05", "C07", "C10"):     # the rate comparisons; POINT:FRAMES set by hand and columns of the wrong length: rates below 1 Hz, rates 0.005 Hz apart, NTSC rates, sub-frame ratios 0 / 1 / 2 / 400
        results.append(("MC_Rates", vlib.replay_slice("MC_Rates.tla", "MC_Rates.cfg", {"NP": 1, "NA": 1, "Quick": "TRUE" if tier == "quick" else "FALSE", "MaxFrames": 2, "MaxPts": 1, "MaxCh": 1, "IdxSlack": 1},
                                                      ez, tag="rates", timeout=3000)))
    # objects loaded from files of other writers ("Optotrak": ANALOG group without parameters; no POINT:DESCRIPTIONS; first frame number 5;
    # fewer labels than points; analog-only), then frames / columns / parameters added, saved and reloaded
    results.append(("MC_Modify", vlib.replay_slice("MC_Modify.tla", "MC_Modify.cfg", {"Quick": "TRUE" if tier == "quick" else "FALSE", "WithReload": "TRUE" if pid == "C10" else "FALSE"}, ez, tag="modify", timeout=6000)))
    if pid == "C05":      # one caller frame stored several times (append, replace, extend), mutated by the caller, then columns of both kinds
        nm, cs, sk = frames_configs(tier)[4]
        results.append((nm, vlib.replay_slice("MC_Frames.tla", "MC_Frames.cfg", cs, ez, tag="frames", timeout=6000, sample_k=sk)))
    if pid == "C10":      # refused column adders over three frames with gaps (index up to count+2) come from the frame-centred slice
        results.append(("MC_Frames/columns", vlib.replay_slice("MC_Frames.tla", "MC_Frames.cfg", frames_consts("quick"), ez, tag="frames", timeout=9000, sample_k=6 if tier == "quick" else 2)))
        # refused parameter calls: unnamed, untyped (existing / new group), refused typed sets after accepted ones
        results.append(("MC_Params", vlib.replay_slice("MC_Params.tla", "MC_Params.cfg", {"MaxVals": 2, "Deep": "FALSE"} if tier == "quick" else {"MaxVals": 3, "Deep": "FALSE"}, ez, tag="params", timeout=9000, sample_k=8 if tier == "quick" else 16)))
    return report_replay(pid, results, tier, t0, assumptions=SHAPE_ASSUME, trace=True)

def frames_configs(tier):
    """(callers) one caller frame object reused / mutated / re-submitted, two explicit payloads, in-place edits;
    (gaps) in-place edits and point columns over data sets with up to two empty frames created by one extension (index up to count+2);
    (columns) point and channel columns (two channel names) over the same data sets, without in-place edits;
    (alias) frames of the object itself handed back to it; (shared) one caller frame stored several times, then point and channel
    columns added in every order (whatever the stored frames share with each other or with the caller must not show)"""
    if tier == "quick":
        return [("MC_Frames/callers", {"NTags": 2, "NCallers": 1, "NChan": 1, "MaxFrames": 2, "IdxSlack": 2, "WithEdits": "TRUE"}, 16),
                ("MC_Frames/gaps", {"NTags": 0, "NCallers": 0, "NChan": 1, "MaxFrames": 3, "IdxSlack": 3, "WithEdits": "TRUE"}, 5),
                ("MC_Frames/columns", {"NTags": 0, "NCallers": 0, "NChan": 2, "MaxFrames": 3, "IdxSlack": 3, "WithEdits": "FALSE"}, 6),
                ("MC_Frames/alias", {"NTags": 0, "NCallers": 0, "NChan": 1, "MaxFrames": 3, "IdxSlack": 3, "WithEdits": "FALSE", "WithAlias": "TRUE"}, 8),
                ("MC_Frames/shared", {"NTags": 1, "NCallers": 1, "NChan": 2, "MaxFrames": 2, "IdxSlack": 1, "WithEdits": "FALSE"}, 4)]
    # thorough: the same five bounded instances (TLC explores and checks all of them in both tiers), four times the replayed share
    return [(n_, c_, max(1, k_ // 4)) for n_, c_, k_ in frames_configs("quick")]
def frames_consts(tier):
    return frames_configs("quick")[2][1]

def run_frames(pid, tier, t0):
    ez = report_replay.ez = vlib.build("plain")
    results = [(name, vlib.replay_slice("MC_Frames.tla", "MC_Frames.cfg", consts, ez, tag="frames", timeout=9000, sample_k=sk)) for name, consts, sk in frames_configs(tier)]
    # frames that came from a file (what the reader lets them share is invisible until a frame or a column is added)
    results.append(("MC_Modify", vlib.replay_slice("MC_Modify.tla", "MC_Modify.cfg", {"Quick": "TRUE" if tier == "quick" else "FALSE", "WithReload": "FALSE"}, ez, tag="modify", timeout=6000)))
    return report_replay(pid, results, tier, t0, assumptions=SHAPE_ASSUME, trace=(pid == "C06"))

def run_params(pid, tier, t0):
    ez = vlib.build("plain")
    # (the deep alphabet - 17 dimension arguments up to 8 entries, parameters in POINT and in a third group - with 0..3 values has more than
    # 150 M transitions: it is explored with 0..1 values; 0..3 values go with the 9 dimension arguments of the quick tier)
    consts = {"MaxVals": 2, "Deep": "FALSE"} if tier == "quick" else {"MaxVals": 3, "Deep": "FALSE"}
    res = vlib.replay_slice("MC_Params.tla", "MC_Params.cfg", consts, ez, tag="params", timeout=9000, sample_k=6 if tier == "quick" else 8)
    # names and groups that differ by case only (distinct in memory), over a small alphabet of sets
    res2 = vlib.replay_slice("MC_Params.tla", "MC_Params.cfg", {"MaxVals": 1, "Deep": "FALSE", "Variant": '"names"'}, ez, tag="pnames", timeout=9000, sample_k=4 if tier == "quick" else 1)
    more = []
    if tier != "quick":
        more.append(("MC_Params/deep", vlib.replay_slice("MC_Params.tla", "MC_Params.cfg", {"MaxVals": 1, "Deep": "TRUE"}, ez, tag="pdeep", timeout=9000, sample_k=8)))
    return report_replay(pid, [("MC_Params", res), ("MC_Params/names", res2)] + more, tier, t0,
                         assumptions=["parameter alphabet: int/float/string, 0..%s values, dimension arguments with up to %s entries" % (consts["MaxVals"], 8 if tier != "quick" else 3)])

def run_lookup(pid, tier, t0):
    ez = vlib.build("plain")
    consts = {"NPts": 2, "MaxFrames": 1} if tier == "quick" else {"NPts": 3, "MaxFrames": 1}      # thorough: 7 501 states, 2.66 M look-ups (3 names each, blank included)
    res = vlib.replay_slice("MC_Lookup.tla", "MC_Lookup.cfg", consts, ez, tag="lookup", timeout=6000)
    return report_replay(pid, [("MC_Lookup", res)], tier, t0,
                         assumptions=["positions 2^32 and 2^64-1 are tokens (-2, -1) mapped by the harness: TLC integers are 32 bit",
                                      "exception classes reduced most-derived-first as binding/ezc3d.i does"])

def io_consts(tier):
    return {"NP": 1, "NA": 1, "MaxFrames": 1 if tier == "quick" else 2, "MaxPts": 1 if tier == "quick" else 2}

def io_values_consts(tier):
    """the second alphabet of the I/O slice: ANALOG:SCALE / OFFSET set by hand, NaN coordinates, a parameter whose last set was refused"""
    return dict(io_consts(tier), Variant='"values"')

def run_defined(pid, tier, t0):
    """C14: purity / repeatability / bytes = function of the content on every save of the I/O slice, and the definedness sensor:
    the same transitions are replayed in two runs whose heap is filled with different bytes (MALLOC_PERTURB_); every saved file must be
    byte-identical in both - a byte taken from uninitialised or unrelated memory differs (or differs from the writer model)."""
    ez = report_replay.ez = vlib.build("plain")
    work = vlib.scratch("c14")
    edges = os.path.join(work, "edges.io")
    summ = vlib.dump_edges("MC_IO.tla", "MC_IO.cfg", io_consts(tier), edges)
    edges2 = os.path.join(work, "edges.io2")
    summ2 = vlib.dump_edges("MC_IO.tla", "MC_IO.cfg", io_values_consts(tier), edges2)
    with open(edges, "a") as f: f.write(open(edges2).read())
    os.remove(edges2)
    summ = dict(summ, generated=summ["generated"] + summ2["generated"] - 1, distinct=summ["distinct"] + summ2["distinct"])    # ("generated" counts the initial state of each run)
    runs = []
    for perturb in ("165", "90"):
        cases, fails, dig = vlib.replay_file(ez, edges, env={"MALLOC_PERTURB_": perturb, "EZ_EMIT_DIGEST": "1"})
        runs.append((cases, fails, dig))
    res = {"tlc": summ, "tlc_errors": [], "tlc_out_tail": "", "cases": runs[0][0], "fails": runs[0][1], "crashes": 0, "samples": [], "keep_mod": 1}
    differing = [(kk, runs[0][2][kk], runs[1][2][kk]) for kk in runs[0][2] if kk in runs[1][2] and runs[0][2][kk][:2] != runs[1][2][kk][:2]]
    extra = {"saves_compared_between_perturbed_runs": len(set(runs[0][2]) & set(runs[1][2])), "saves_differing_between_perturbed_runs": len(differing)}
    rc = report_replay(pid, [("MC_IO (heap filled with 0x5A)", res)], tier, t0, extra_cov=extra, assumptions=SHAPE_ASSUME + [
        "definedness sensor: glibc MALLOC_PERTURB_ with two different fill bytes; stack-resident undefined bytes are only caught through the comparison with the writer model"])
    if differing:
        kk, a, b = sorted(differing, key=lambda x: x[1][2])[0]
        p = vlib.save_replay(pid, "perturb", {"property": pid, "kind": "corpus", "what": "a saved file differs between two runs that differ only in the bytes the heap is filled with (MALLOC_PERTURB_=165 vs 90)",
                                                "saves_differing": len(differing), "example_key": kk, "lengths": [a[1], b[1]], "calls_in_history": a[2]})
        log("VIOLATION property=%s replay=%s" % (pid, p))
        log("  %d of %d saved files differ between two runs whose heap was filled with different bytes: some saved bytes are not determined by the object's content" % (len(differing), extra["saves_compared_between_perturbed_runs"]))
        return 1
    return rc

def run_io(pid, tier, t0):
    ez = report_replay.ez = vlib.build("plain")
    res = vlib.replay_slice("MC_IO.tla", "MC_IO.cfg", io_consts(tier), ez, tag="io", timeout=6000)
    results = [("MC_IO", res), ("MC_IO/values", vlib.replay_slice("MC_IO.tla", "MC_IO.cfg", io_values_consts(tier), ez, tag="iov", timeout=6000))]
    if pid == "C03":
        # loaded, modified, saved: the header of the saved file follows the modified content (frame range re-based when the file started at frame 5)
        results.append(("MC_Modify", vlib.replay_slice("MC_Modify.tla", "MC_Modify.cfg", {"Quick": "TRUE"}, ez, tag="modify", timeout=6000)))
        # objects loaded from foreign layouts (parameter block 3, leading zeros, sparse ids, ...) and saved: the saved file must be ezc3d's own
        # self-consistent layout whatever the loaded file looked like
        results.append(("MC_Format/layout", vlib.replay_slice("MC_Format.tla", "MC_Format.cfg", {"Variant": '"layout"', "Full": "FALSE" if tier == "quick" else "TRUE"}, ez, tag="fmtlayout", timeout=9000)))
    if pid in ("C01", "C03"):
        # alignment sweep: every residue 0..511 of the parameter-section length modulo the block size
        results.append(("MC_Align", vlib.replay_slice("MC_Align.tla", "MC_Align.cfg", {"KMax": 255, "FromLoaded": "FALSE"}, ez, tag="align", timeout=6000, workers=8)))
        if tier != "quick":
            results.append(("MC_Align/loaded", vlib.replay_slice("MC_Align.tla", "MC_Align.cfg", {"KMax": 255, "FromLoaded": "TRUE"}, ez, tag="align2", timeout=6000, workers=8)))
    return report_replay(pid, results, tier, t0, assumptions=SHAPE_ASSUME + [
        "the specification's writer model is compared byte for byte with the bytes the real code writes; the model itself is shown self-consistent / round-tripping by TLC in every state"])

# ------------------------------------------------------------------ C15: fault enumeration
def _frame(pnames, nsub, anames, tag):
    return {"p": [{"n": vlib.codes(n), "v": [[tag, i + 1, c, 64] for c in (1, 2, 3, 4)]} for i, n in enumerate(pnames)],
            "a": [[{"n": vlib.codes(n), "v": [tag, i + 1, 16 + s, 65]} for i, n in enumerate(anames)] for s in range(1, nsub + 1)]}
def _rate(group, hz_bytes):
    return {"op": "SetParam", "g": vlib.codes(group), "p": {"n": vlib.codes("RATE"), "d": [], "l": 1, "sets": [{"t": 4, "v": [hz_bytes], "dim": [], "scalar": 1}]}}
def _userparam(g, n, t, vals, dim=(), desc="", lock=0):
    return {"op": "SetParam", "g": vlib.codes(g), "p": {"n": vlib.codes(n), "d": vlib.codes(desc), "l": lock, "sets": [{"t": t, "v": vals, "dim": list(dim), "scalar": 0}]}}
F100, F200, F1000 = [0, 0, 200, 66], [0, 0, 72, 67], [0, 0, 122, 68]
def build_ops(npts, nch, nsub, nframes, extra=()):
    ops = [{"op": "New"}]
    pn = ["p%d" % i for i in range(1, npts + 1)]; an = ["a%d" % i for i in range(1, nch + 1)]
    if npts: ops.append(_rate("POINT", F100))
    if nch: ops.append(_rate("ANALOG", F100 if nsub == 1 else F200 if nsub == 2 else F1000))
    if npts and not nch: pass
    if nch and not npts: ops.append(_rate("POINT", F100))
    ops += [{"op": "DeclPoint", "n": vlib.codes(n)} for n in pn] + [{"op": "DeclAnalog", "n": vlib.codes(n)} for n in an]
    ops += list(extra)
    ops += [{"op": "AddFrame", "idx": -1, "frame": _frame(pn, nsub if nch else 0, an, (f % 200) + 1)} for f in range(nframes)]
    return ops

def run_faults(pid, tier, t0):
    ez = report_replay.ez = vlib.build("plain")
    rnd = random.Random(vlib.seed())
    big = _userparam("BIG", "TEXT", -1, [vlib.codes("x" * 60)] * 12)          # pushes the parameter section into a second block
    objects = [("empty", build_ops(0, 0, 0, 0), "all"),
               ("p1f1", build_ops(1, 0, 0, 1), None),
               ("p3a3x10", build_ops(3, 3, 10, 10), None),
               ("twoblocks", build_ops(2, 1, 2, 3, [big]), None),
               ("frames40", build_ops(2, 2, 1, 40), None),
               # frames larger than a stream buffer (1280 bytes each): whatever is handed to the file in one piece can be cut anywhere
               ("wide80", build_ops(80, 0, 0, 12), "wide"),
               ("wide32x10", build_ops(0, 32, 10, 6), "wide")]
    kinds = ["none", "missing_dir", "is_dir", "dev_full", "readonly"]
    ops = []
    for name, build, ks in objects:
        ops.append({"op": "Reset"}); ops += [dict(o, post=0) for o in build]
        if ks == "wide":
            ks = ([1535, 1536, 1537, 2047, 2048, 2049, 2559, 2560, 2561, 2815, 2816, 2817, 4095, 4096, 4097, 8191, 8192, 8193, -3, -2, -1] + [-rnd.randrange(1, 9000) for _ in range(60 if tier == "quick" else 1500)])
        if ks is None:
            if tier == "quick":
                ks = [0, 1, 2, 15, 16, 17, 18, 510, 511, 512, 513, 514, 515, 516, 1023, 1024, 1025, 1535, 1536, 1537, -3, -2, -1] + [rnd.randrange(0, 1024) for _ in range(40)] + [-rnd.randrange(1, 3000) for _ in range(24)]
            else:
                ks = "all"
        ops.append({"op": "FaultSweep", "label": name, "kinds": kinds, "ks": ks})
    evs, raw = vlib.run_ops(ez, ops, timeout=3000)
    faults = [e for e in evs if e.get("e") == "SaveFault"]
    work = vlib.scratch("c15")
    tpath = os.path.join(work, "faults.ndjson")
    open(tpath, "w").write("\n".join(json.dumps(e) for e in faults) + "\n")
    # design level: the fault model itself
    rc, out = vlib.run_tlc("EzFault.tla", "EzFault.cfg", timeout=300, workers=1)
    msum = vlib.tlc_summary(out)
    if vlib.tlc_errors(out) or msum is None: raise Infra("EzFault model check failed: %s" % out[-1500:])
    accepted, at, summ, tout = vlib.validate_trace("EzFaultTrace.tla", "EzFaultTrace.cfg", tpath)
    nviol = 0
    if not accepted:
        accepted2, at2, _, _ = vlib.validate_trace("EzFaultTrace.tla", "EzFaultTrace.cfg", tpath)      # a rejection is reported only if it repeats
        if not accepted2 and at2 == at:
            # report every rejected event, not only the first: validate the remaining events one at a time is costly, so locate by the spec's rule
            bad = [e for e in faults if not ((e["out"] == "ok" and e["disk_len"] == e["ref_len"] and e["prefix_ok"] == 1 and (e["kind"] == "none" or (e["kind"] == "fsize" and e["k"] >= e["ref_len"])))
                                             or (e["out"] == "ios_failure" and not (e["kind"] == "none" or (e["kind"] == "fsize" and e["k"] >= e["ref_len"]))))]
            first = faults[at - 1] if at and at - 1 < len(faults) else (bad[0] if bad else None)
            keyset = {}
            for e in ([first] if first else []) + bad:
                keyset.setdefault("%s:%s" % (e["kind"], e["out"]), e)
            for key, e in list(keyset.items())[:8]:
                p = vlib.save_replay(pid, key, {"property": pid, "kind": "fault", "event": e, "build_ops": dict((n, b) for n, b, _ in objects)[e["obj"]]})
                log("VIOLATION property=%s replay=%s" % (pid, p))
                log("  save under fault %s(k=%s) on object '%s' returned '%s' with %s of %s bytes on disk: not a step of EzFault.SaveUnderFault (trace rejected at event %s)" %
                    (e["kind"], e["k"], e["obj"], e["out"], e["disk_len"], e["ref_len"], at))
                nviol += 1
    lossy = [e for e in faults if not (e["kind"] == "none" or (e["kind"] == "fsize" and e["k"] >= e["ref_len"]))]
    distinct = len({(e["obj"], e["kind"], e["k"]) for e in lossy})
    cov = {"evaluations": len(faults), "distinct_nontrivial": distinct,
           "rule": "one evaluation = one save of a built object in a forked child under one fault (unopenable path: missing directory / directory / "
                   "read-only file as uid 65534; /dev/full; RLIMIT_FSIZE=k with SIGXFSZ ignored); non-trivial = the fault loses at least one byte "
                   "(k < file length or destination fault); distinct by (object, fault kind, k). Every event is validated by TLC against EzFaultTrace.tla",
           "samples": lossy[:3] + faults[-2:], "objects": [n for n, _, _ in objects],
           "trace_events_validated": len(faults), "trace_accepted": bool(accepted),
           "model_states": msum["distinct"], "model_transitions": msum["generated"], "exhaustive": tier != "quick"}
    cov["known_findings_observed"] = known_findings(pid, ez)
    vlib.write_evidence(pid, tier, "fault_enumeration", cov, time.time() - t0, nviol,
                        ["faults are injected through the operating system (rlimit, permissions, /dev/full); a write error that the OS would only report at a later fsync is outside the model"])
    log("[%s] %s: %d saves under fault (%d lossy, %d distinct), trace %s by TLC, %.0fs" % (pid, tier, len(faults), len(lossy), distinct, "accepted" if accepted else "REJECTED", time.time() - t0))
    return 1 if nviol else 0

# ------------------------------------------------------------------ C16: damaged files
def run_corrupt(pid, tier, t0):
    import subprocess, glob
    os.environ.update(SAN_ENV)
    ez = report_replay.ez = vlib.build("plain")
    bad = vlib.build("asan", harness="ezcorrupt")
    work = vlib.scratch("c16")
    # seed files: written by the real writer from built objects (+ the leading-zeros layout of one of them)
    big = _userparam("BIG", "TEXT", -1, [vlib.codes("x" * 40)] * 8)
    multi = _userparam("USR", "CUBE", 2, [1, -2, 3, -4, 5, -6], dim=(2, 1, 3), desc="three dimensional", lock=1)
    fl = _userparam("USR", "FL", 4, [[0, 0, 128, 63], [0, 0, 128, 191]])
    seed_ops = [build_ops(2, 1, 2, 2, [multi, fl]), build_ops(1, 0, 0, 1, [big]), build_ops(0, 2, 1, 3)]
    if tier != "quick":
        seed_ops += [build_ops(3, 3, 10, 4, [multi, fl, big]), build_ops(0, 0, 0, 0), build_ops(5, 0, 0, 2)]
    seeds = []
    for i, ops in enumerate(seed_ops):
        evs, _ = vlib.run_ops(ez, [dict(o, post=0) for o in ops] + [{"op": "Save", "path": "s.c3d", "bytes": 1, "post": 0}])
        seeds.append(evs[-1]["bytes"])
    seeds.append([0, 0, 0] + seeds[0])                       # vendor layout: zero bytes before the header
    sdir = os.path.join(work, "seeds"); os.makedirs(sdir)
    with open(os.path.join(work, "seeds.ndjson"), "w") as f:
        for k, b in enumerate(seeds, 1):
            f.write(json.dumps({"bytes": b}) + "\n")
            open(os.path.join(sdir, "seed.%d" % k), "wb").write(bytes(b))
    # TLC enumerates the mutation descriptors
    cfg = os.path.join(work, "corrupt.cfg")
    vlib.write_cfg(cfg, "EzCorrupt.cfg", {"NSeeds": len(seeds), "Stride": 7 if tier == "quick" else 1})
    rc, out = vlib.run_tlc("EzCorrupt.tla", cfg, workers=1, timeout=3000, env={"SEEDS": os.path.join(work, "seeds.ndjson")})
    if vlib.tlc_errors(out): raise Infra("EzCorrupt enumeration failed: %s" % out[-2000:])
    muts = [l for l in out.splitlines() if l.startswith('"{')]
    if len(muts) < 100: raise Infra("EzCorrupt produced only %d descriptors:\n%s" % (len(muts), out[-1500:]))
    nproc = vlib.NCPU
    chunks = [muts[i::nproc] for i in range(nproc)]
    procs = []
    for i, ch in enumerate(chunks):
        inp = os.path.join(work, "muts.%d" % i); open(inp, "w").write("\n".join(ch) + "\n")
        procs.append(subprocess.Popen("%s --seeds %s --dir %s/w%d < %s > %s/ev.%d 2> %s/err.%d" % (bad, sdir, work, i, inp, work, i, work, i), shell=True))
    for p in procs:
        p.wait()
        if p.returncode != 0: raise Infra("ezcorrupt exited with %s" % p.returncode)
    events = []
    for i in range(nproc):
        events += [json.loads(l) for l in open("%s/ev.%d" % (work, i)) if l.strip()]
    if len(events) != len(muts): raise Infra("%d events for %d mutations" % (len(events), len(muts)))
    tpath = os.path.join(work, "loads.ndjson")
    open(tpath, "w").write("\n".join(json.dumps({"e": e["e"], "out": e["out"]}) for e in events) + "\n")
    accepted, at, summ, tout = vlib.validate_trace("EzCorruptTrace.tla", "EzCorruptTrace.cfg", tpath, timeout=3000)
    nviol = 0
    faults = [e for e in events if e["out"] not in ("loaded", "refused")]
    if not accepted or faults:
        stderr = ""
        for i in range(nproc):
            t = open("%s/err.%d" % (work, i), errors="replace").read()
            if t.strip() and len(stderr) < 6000: stderr += t[:2500]
        keys = {}
        for e in faults:
            m = e["m"]
            where = "trunc" if m["kind"] == "trunc" else "set@%s" % ("hdr" if m["pos"][0] < 512 else "prm" if m["pos"][0] < 512 * (seeds[e["seed"] - 1][16 + (3 if e["seed"] == len(seeds) else 0)] - 1) else "data")
            keys.setdefault("%s:%s" % (e["out"], where), e)
        for key, e in list(keys.items())[:10]:
            p = vlib.save_replay(pid, key, {"property": pid, "kind": "corrupt", "seed_bytes": seeds[e["seed"] - 1], "mutation": e["m"], "event": e})
            log("VIOLATION property=%s replay=%s" % (pid, p))
            log("  loading seed %d with mutation %s ended in '%s' (size %d, largest allocation %s, %s ms): not a step of EzCorrupt.Load" %
                (e["seed"], json.dumps(e["m"]), e["out"], e["size"], e.get("maxalloc"), e.get("ms")))
            nviol += 1
        if stderr: log("  sanitizer output (first reports):\n" + "\n".join("    " + l for l in stderr.splitlines()[:30]))
    outs = {}
    for e in events: outs[e["out"]] = outs.get(e["out"], 0) + 1
    cov = {"evaluations": len(events), "distinct_nontrivial": len({json.dumps([e["seed"], e["m"]], sort_keys=True) for e in events}),
           "rule": "mutation descriptors are enumerated by TLC from EzCorrupt.tla over %d seed files (every truncation length, byte overwrites with {0,1,127,128,255,pseudo-random} "
                   "at %s, every header word and every record field found by the decoder's parser with the boundary values of its width, pairs inside a record); only "
                   "descriptors that change at least one byte are emitted; each is loaded in a forked ASan/UBSan child with an allocation budget of 64 x size + 16 MiB and a wall-clock limit" %
                   (len(seeds), "every 7th offset and the first 48" if tier == "quick" else "every offset"),
           "samples": [events[0], events[len(events) // 2], events[-1]], "outcomes": outs, "seeds": [len(s) for s in seeds],
           "trace_events_validated": len(events), "trace_accepted": bool(accepted and not faults), "max_ms": max(e.get("ms", 0) for e in events),
           "max_single_allocation": max(e.get("maxalloc", 0) for e in events)}
    cov["known_findings_observed"] = known_findings(pid, ez)
    vlib.write_evidence(pid, tier, "exploration", cov, time.time() - t0, nviol,
                        ["sensors: ASan/UBSan, replaced operator new (largest request, budget), alarm(); the specification fixes the corruption space and the two admissible outcomes"])
    log("[%s] %s: %d damaged files loaded (%s), trace %s by TLC, %.0fs" % (pid, tier, len(events), outs, "accepted" if accepted and not faults else "REJECTED", time.time() - t0))
    return 1 if nviol else 0

# ------------------------------------------------------------------ C17: capacity limits
def content_of(post):
    """Python mirror of C3DFormat.Content (what a save/load may not change): names upper-cased, placeholder groups and
    POINT:DATA_START dropped, sub-frames without channels dropped, derived header fields."""
    up = lambda a: [x - 32 if 97 <= x <= 122 else x for x in a]
    h = post["hdr"]
    hdr = {k: h[k] for k in ("npts", "meas", "first", "last", "rate", "gap", "nev", "evt", "evd", "evl", "nframes", "nanalogs")}
    hdr["perframe"] = h["perframe"] if h["nanalogs"] else 0
    grp = []
    for g in post["grp"]:
        if not g["n"] and not g["p"]: continue
        ps = [dict(p, n=up(p["n"])) for p in g["p"] if not (up(g["n"]) == vlib.codes("POINT") and up(p["n"]) == vlib.codes("DATA_START"))]
        grp.append({"n": up(g["n"]), "d": g["d"], "l": g["l"], "p": ps})
    frm = [{"p": f["p"], "a": [] if all(len(s) == 0 for s in f["a"]) else f["a"]} for f in post["frm"]]
    return {"hdr": hdr, "grp": grp, "frm": frm}

def limit_cases(tier):
    """(components, build ops) for every limit at L-1, L, L+1 and far beyond, alone and in pairs."""
    cases = []
    def add(comps, ops): cases.append(([{"limit": n, "v": v} for n, v in comps], ops))
    base = lambda extra: build_ops(1, 1, 1, 1, extra)
    for v in (254, 255, 256, 300): add([("param_desc", v)], base([_userparam("G", "P", 2, [1, 2], desc="d" * v)]))
    for v in (126, 127, 128, 200): add([("param_name", v)], base([_userparam("G", "N" * v, 2, [1, 2])]))
    for v in (126, 127, 128, 200): add([("group_name", v)], base([_userparam("G" * v, "P", 2, [1, 2])]))
    for v in (254, 255, 256, 300): add([("dim_entry", v)], base([_userparam("G", "P", 2, list(range(v)))]))
    for v in (254, 255, 256): add([("str_count", v)], base([_userparam("G", "S", -1, [vlib.codes("s%d" % i) for i in range(v)])]))
    for v in (6, 7, 8): add([("ndims", v)], base([_userparam("G", "P", 4, [[0, 0, 128, 63]], dim=[1] * v)]))
    for v in (254, 255, 256): add([("points", v)], build_ops(v, 0, 0, 1))
    for v in (254, 255, 256): add([("channels", v)], build_ops(0, v, 1, 1))
    for v in (32767, 32768, 40000): add([("int_max", v)], base([_userparam("G", "P", 2, [1, v])]))
    for v in (32767, 32768, 32769): add([("int_min", v)], base([_userparam("G", "P", 2, [-v, 5])]))
    for v, n in ((65290, 64), (66310, 65)):        # one float parameter: 10 + 4 * 255 * n bytes of record
        add([("record_bytes", 10 + 4 * 255 * n)], base([_userparam("G", "F", 4, [[0, 0, 128, 63]] * (255 * n), dim=(255, n))]))
    def blocks(nb):     # parameter section of exactly nb blocks: string parameters of 255-character cells
        ops = []; base_sz = None
        return ops
    # parameter blocks: fill with string parameters (dims <<255, k>>), section size computed like C3DFormat.SectionSize
    def section_with(nblocks):
        probe_ops = base([])
        return probe_ops
    frames_vals = (32766, 32767, 32768) if tier != "quick" else (32767, 32768)
    for v in frames_vals: add([("frames", v)], build_ops(1, 0, 0, v))
    # pairs
    add([("param_desc", 255), ("param_name", 127)], base([_userparam("G", "N" * 127, 2, [1], desc="d" * 255)]))
    add([("param_desc", 256), ("param_name", 127)], base([_userparam("G", "N" * 127, 2, [1], desc="d" * 256)]))
    add([("param_name", 127), ("dim_entry", 255)], base([_userparam("G", "N" * 127, 2, list(range(255)))]))
    add([("param_name", 128), ("dim_entry", 255)], base([_userparam("G", "N" * 128, 2, list(range(255)))]))
    add([("points", 255), ("channels", 255)], build_ops(255, 255, 1, 1))
    add([("points", 255), ("channels", 256)], build_ops(255, 256, 1, 1))
    add([("int_max", 32767), ("int_min", 32768), ("param_desc", 255)], base([_userparam("G", "P", 2, [32767, -32768], desc="d" * 255)]))
    return cases

def group_id_case(ez, gid):
    """A file as other software may write it: its last group carries the id gid - 1 (the ids in between are unused, the loader pads the
    group table), loaded, then one more group is added - it needs the id gid. Ids are one signed byte: 127 is the last one that fits."""
    ops = build_ops(1, 0, 0, 1, [_userparam("GX", "P", 2, [1])])
    evs, _ = vlib.run_ops(ez, [dict(o, post=0) for o in ops] + [{"op": "Save", "path": "g.c3d", "bytes": 1, "post": 0}])
    b = list(evs[-1]["bytes"])
    s8 = lambda x: x - 256 if x > 127 else x
    pos = 512 * (b[0] - 1) + 4; recs = []
    while True:
        nl = s8(b[pos])
        if nl == 0: break
        n = abs(nl); idb = s8(b[pos + 1]); off = b[pos + 2 + n] + 256 * b[pos + 3 + n]
        recs.append((pos, idb, bytes(b[pos + 2:pos + 2 + n]).decode()))
        if off == 0: break
        pos = pos + 2 + n + off
    old = [-idb for (_, idb, nm) in recs if idb < 0 and nm == "GX"][0]
    for (q, idb, nm) in recs:
        if idb == -old: b[q + 1] = (256 - (gid - 1)) & 255
        elif idb == old: b[q + 1] = gid - 1
    return [{"op": "PutFile", "path": "gid.c3d", "bytes": b}, {"op": "Load", "o": 1, "path": "gid.c3d"}, _userparam("EXTRA", "Q", 2, [7])]

def params_blocks_case(ez, nblocks):
    """Object whose parameter section takes exactly nblocks blocks, by adding 255-wide string parameters."""
    ops = build_ops(1, 1, 1, 1)
    evs, _ = vlib.run_ops(ez, [dict(o, post=0) for o in ops] + [{"op": "Save", "path": "b.c3d", "bytes": 1, "post": 0}])
    b = evs[-1]["bytes"]; used = None
    # bytes used by the section body = position of the terminator - 512
    dstart = b[16] + 256 * b[17]; end = 512 * (dstart - 1)
    pos = end - 1
    while pos > 512 and b[pos] == 0: pos -= 1
    body = pos + 1 - 512
    target = 512 * nblocks - 20          # land safely inside block number nblocks
    extra = []
    need = target - body - (5 + 3)       # new group record "BLK"
    k = 0
    while need > 0:
        k += 1
        cells = min(250, max(1, (need - 16) // 255))
        width = 255 if cells >= 1 and need > 300 else max(1, need - 16)
        if need <= 300: cells, width = 1, max(1, need - 14)
        extra.append(_userparam("BLK", "T%03d" % k, -1, [vlib.codes("y" * width)] * cells))
        need -= 7 + 4 + 2 + cells * width
    return build_ops(1, 1, 1, 1, extra)

def params_bytes_case(ez, target):
    """Object whose parameter section (prologue + records, without terminator / padding) takes exactly `target` bytes."""
    ops = build_ops(1, 1, 1, 1)
    evs, _ = vlib.run_ops(ez, [dict(o, post=0) for o in ops[:-1]] + [ops[-1]])
    body = 4          # prologue; then the records, as C3DFormat.SectionSize counts them
    for g in evs[-1]["post"]["grp"]:
        if not g["n"] and not g["p"]: continue
        body += 5 + len(g["n"]) + len(g["d"])
        for p in g["p"]:
            n = 1
            for x in p["dim"]: n *= x
            if not p["dim"]: n = 0
            body += 7 + len(p["n"]) + (0 if p["dim"] == [1] else len(p["dim"])) + len(p["d"]) + n * (1 if p["t"] == -1 else p["t"])
    remaining = target - body - 8            # group record "BLK": 2 + 3 + 2 + 1
    extra = []; k = 0
    while remaining > 0:
        k += 1
        if remaining > 13 + 250 * 255 + 14:
            cells, width = 250, 255
        elif remaining > 13 + 255 + 14:
            cells = (remaining - 13 - 14) // 255; width = 255
            if cells < 1: cells = 1
        else:
            cells, width = 1, remaining - 13
        assert width >= 1 and cells >= 1, (remaining, cells, width)
        extra.append(_userparam("BLK", "T%03d" % k, -1, [vlib.codes("y" * width)] * cells))
        remaining -= 13 + cells * width
    assert remaining == 0, remaining
    return build_ops(1, 1, 1, 1, extra)

def run_limits(pid, tier, t0):
    ez = report_replay.ez = vlib.build("plain")
    cases = limit_cases(tier)
    for tb in (130558, 130559, 130560, 130561, 130566, 130572):
        cases.append(([{"limit": "section_bytes", "v": tb}], params_bytes_case(ez, tb)))
    for nb in (254, 255, 256):
        cases.append(([{"limit": "param_blocks", "v": nb}], params_blocks_case(ez, nb)))
    for gid in (126, 127, 128):      # the id of a group added to a loaded file whose group ids have gaps
        cases.append(([{"limit": "group_id", "v": gid}], group_id_case(ez, gid)))
    rc, out = vlib.run_tlc("EzLimits.tla", "EzLimits.cfg", timeout=300, workers=1)
    msum = vlib.tlc_summary(out)
    if vlib.tlc_errors(out) or msum is None: raise Infra("EzLimits model check failed: %s" % out[-1500:])
    events = []
    for comps, ops in cases:
        script = [{"op": "Reset"}] + [dict(o, post=0) for o in ops] + [{"op": "Get", "q": "nbFrames", "o": 1}, {"op": "Save", "path": "lim.c3d", "o": 1, "bytes": 1}, {"op": "Load", "o": 2, "path": "lim.c3d"}]
        evs, _ = vlib.run_ops(ez, script, timeout=1200)
        built = all(e["out"] == "ok" for e in evs[1:-3])
        sv, ld = evs[-2], evs[-1]
        save = "ok" if sv["out"] == "ok" else "refused"
        load = "na" if save != "ok" else ("ok" if ld["out"] == "ok" else "refused")
        same = 0
        if save == "ok" and load == "ok":
            same = 1 if content_of(sv["post"]) == content_of(ld["post"]) else 0
        # for param_blocks the real block count is read from the saved file
        if comps[0]["limit"] == "param_blocks" and save == "ok":
            b = sv["bytes"]; comps = [{"limit": "param_blocks", "v": b[514]}]
        events.append({"e": "Limit", "comps": comps, "save": save, "load": load, "same": same, "built": 1 if built else 0,
                       "save_class": sv["out"], "load_class": ld["out"] if save == "ok" else "na"})
    work = vlib.scratch("c17"); tpath = os.path.join(work, "limits.ndjson")
    open(tpath, "w").write("\n".join(json.dumps({k: e[k] for k in ("e", "comps", "save", "load", "same")}) for e in events) + "\n")
    accepted, at, summ, tout = vlib.validate_trace("EzLimitsTrace.tla", "EzLimitsTrace.cfg", tpath)
    nviol = 0
    if not accepted:
        accepted2, at2, _, _ = vlib.validate_trace("EzLimitsTrace.tla", "EzLimitsTrace.cfg", tpath)
        if not accepted2:
            # every event is an independent step from the same rule: validate them one by one to report all rejected ones
            for i, e in enumerate(events):
                one = os.path.join(work, "one.ndjson")
                open(one, "w").write(json.dumps({k: e[k] for k in ("e", "comps", "save", "load", "same")}) + "\n")
                ok1, _, _, _ = vlib.validate_trace("EzLimitsTrace.tla", "EzLimitsTrace.cfg", one)
                if ok1: continue
                key = "+".join("%s=%s" % (c_["limit"], c_["v"]) for c_ in e["comps"])
                p = vlib.save_replay(pid, key, {"property": pid, "kind": "limit", "event": e, "ops": cases[i][1] if len(json.dumps(cases[i][1])) < 2000000 else "too large: see limit_cases()"})
                log("VIOLATION property=%s replay=%s" % (pid, p))
                log("  content at %s: save %s (%s), load %s (%s), same content %s: not an EzLimits.Allowed step" % (key, e["save"], e["save_class"], e["load"], e["load_class"], e["same"]))
                nviol += 1
    beyond = [e for e in events if e["save"] != "ok"]
    cov = {"evaluations": len(events), "distinct_nontrivial": len({json.dumps(e["comps"]) for e in events}),
           "rule": "one evaluation = build content through the public API with one or several sizes at L-1 / L / L+1 / far beyond a capacity limit, save, load into a second object "
                   "and compare the content (names upper-cased); every case is distinct by its (limit, value) components; each event is validated by TLC against EzLimitsTrace.tla",
           "samples": events[:2] + beyond[:2], "refused_saves": len(beyond), "trace_events_validated": len(events), "trace_accepted": bool(accepted),
           "model_states": msum["distinct"], "limits": sorted({c_["limit"] for e in events for c_ in e["comps"]})}
    cov["known_findings_observed"] = known_findings(pid, ez)
    vlib.write_evidence(pid, tier, "exploration", cov, time.time() - t0, nviol,
                        ["content equality is computed by a Python mirror of C3DFormat.Content; the decision rule (Within / Allowed) is evaluated by TLC",
                         "group descriptions and the first frame number cannot be set through the public API and are exercised through files (C02/C04) only"])
    log("[%s] %s: %d boundary cases (%d refused saves), trace %s by TLC, %.0fs" % (pid, tier, len(events), len(beyond), "accepted" if accepted else "REJECTED", time.time() - t0))
    return 1 if nviol else 0

# ------------------------------------------------------------------ C19: build matrix
def run_builds(pid, tier, t0):
    import subprocess, concurrent.futures, hashlib
    configs = [(v, sh) for v in ("O0", "O2", "O3") for sh in (False, True)]
    with concurrent.futures.ThreadPoolExecutor(max_workers=6) as ex:
        bins = list(ex.map(lambda c_: vlib.build(c_[0], shared=c_[1]), configs))
    ez = report_replay.ez = bins[configs.index(("O2", True))]
    work = vlib.scratch("c19")
    # corpus 1: specification transitions (object construction, save/load, bit-pattern files), with the spec's expected states and bytes
    edge_files = []
    os.environ["SAMPLEK"] = "64" if tier == "quick" else "4"      # the frame / column slice is sampled (dump_edges inherits the environment)
    p0 = os.path.join(work, "edges.columns")
    s0 = vlib.dump_edges("MC_Frames.tla", "MC_Frames.cfg", frames_consts("quick"), p0)
    os.environ["SAMPLEK"] = "1"
    # (layout: files of other writers - padded one-dimensional texts, byte-typed and 3-D parameters, events - loaded and saved again)
    plan = [("MC_IO.tla", "MC_IO.cfg", io_consts("quick"), "io"), ("MC_Format.tla", "MC_Format.cfg", {"Variant": '"patterns"'}, "patterns"),
            ("MC_Format.tla", "MC_Format.cfg", {"Variant": '"layout"', "Full": "FALSE" if tier == "quick" else "TRUE"}, "layout")]
    sampled = {}
    if tier != "quick":
        plan += [("MC_IO.tla", "MC_IO.cfg", io_values_consts("quick"), "iov"), ("MC_Params.tla", "MC_Params.cfg", {"MaxVals": 2, "Deep": "FALSE"}, "params"),
                 ("MC_Lookup.tla", "MC_Lookup.cfg", {"NPts": 2, "MaxFrames": 1}, "lookup")]
        sampled = {"params": 48, "lookup": 8}          # millions of transitions each: a seeded 1/k sample goes through the six builds
    states = s0["distinct"]; transitions = sum(1 for _ in open(p0))
    edge_files.append(("columns", p0))
    for mod, cfg, consts, tag in plan:
        p = os.path.join(work, "edges.%s" % tag)
        os.environ["SAMPLEK"] = str(sampled.get(tag, 1))
        s = vlib.dump_edges(mod, cfg, consts, p)
        os.environ["SAMPLEK"] = "1"
        states += s["distinct"]; transitions += (s["generated"] - 1) if tag not in sampled else sum(1 for _ in open(p))
        edge_files.append((tag, p))
    # corpus 2: damaged files and printing (exception classes and output text): no expected values, all builds must agree byte for byte
    seed_evs, _ = vlib.run_ops(ez, [dict(o, post=0) for o in build_ops(2, 1, 2, 2, [_userparam("USR", "CUBE", 2, [1, -2, 3, -4, 5, -6], dim=(2, 1, 3), desc="cube")])] + [{"op": "Save", "path": "s.c3d", "bytes": 1, "post": 0}])
    seed = seed_evs[-1]["bytes"]
    rnd = random.Random(vlib.seed())
    ops = [{"op": "New", "o": 1}, {"op": "Print", "o": 1}]
    for i in range(400 if tier == "quick" else 4000):
        b = list(seed)
        if i % 4 == 0: b = b[:rnd.randrange(0, len(b))]
        else:
            for _ in range(rnd.choice((1, 1, 2))): b[rnd.randrange(0, min(len(b), 1100))] = rnd.choice((0, 1, 127, 128, 255, rnd.randrange(256)))
        ops += [{"op": "PutFile", "path": "m.c3d", "bytes": b}, {"op": "Load", "o": 2, "path": "m.c3d"}, {"op": "Print", "o": 2, "post": 0}]
    # capacity boundaries (C17 cases around the 255-block limit and the 16-bit integer extremes): refusal or acceptance must not depend on the build
    for tb in (130558, 130559, 130560, 130561):
        ops += [{"op": "Reset"}] + [dict(o, post=0) for o in params_bytes_case(ez, tb)] + [{"op": "Save", "o": 1, "path": "cap.c3d", "post": 0}, {"op": "Load", "o": 2, "path": "cap.c3d", "post": 0}]
    ops += [{"op": "Reset"}, {"op": "New", "o": 1}]
    for vf in ("Vicon", "Qualisys", "Optotrak"):
        ops += [{"op": "Load", "o": 3, "path": vlib.REPO + "/test/c3dFiles/%s.c3d" % vf, "post": 0}, {"op": "Print", "o": 3, "post": 0},
                {"op": "Save", "o": 3, "path": "v.c3d", "post": 0}, {"op": "Load", "o": 4, "path": "v.c3d", "post": 0}, {"op": "Print", "o": 4, "post": 0},
                {"op": "Get", "o": 4, "q": "frame", "f": 0, "post": 0}, {"op": "Get", "o": 4, "q": "group", "g": 0, "post": 0}]
    script = os.path.join(work, "corpus.ndjson"); open(script, "w").write("\n".join(json.dumps(o) for o in ops) + "\n")
    viol = {}
    digests = {}
    totals = 0
    def one(i):
        v, sh = configs[i]; name = "%s/%s" % (v, "shared" if sh else "static")
        res = {"name": name, "fails": [], "cases": 0}
        for tag, p in edge_files:
            cases, fails = vlib.replay_file(bins[i], p, nproc=3)
            for f in fails:
                gen0 = not any(o.get("op") in ("Reload", "LoadBytes") for o in f["path"])
                f["diffs"] = [d for d in f["diffs"] if not (d["k"] == "resave" and gen0)]      # see report_replay: only loaded objects must re-save identically
                for d in f["diffs"]: d.pop("actbytes", None); d.pop("pre", None)
            res["cases"] += cases; res["fails"] += [(tag, f) for f in fails if f["diffs"]]
        d = vlib.scratch("c19run")
        r = subprocess.run("%s run --dir %s < %s | sha256sum" % (bins[i], d, script), shell=True, stdout=subprocess.PIPE, text=True)
        res["digest"] = r.stdout.split()[0]
        return res
    with concurrent.futures.ThreadPoolExecutor(max_workers=6) as ex:
        results = list(ex.map(one, range(len(configs))))
    nviol = 0
    ref = [r for r in results if r["name"] == "O2/shared"][0]
    for r in results:
        totals += r["cases"]
        for tag, f in r["fails"][:3]:
            d = f["diffs"][0]
            key = "%s:%s:%s:%s" % (r["name"], tag, f["op"].get("op"), norm_path(d.get("path", "")))
            if key in viol: continue
            viol[key] = 1
            p = vlib.save_replay(pid, key, {"property": pid, "kind": "replay", "build": r["name"], "path": f["path"], "op": f["op"], "diffs": f["diffs"]})
            log("VIOLATION property=%s replay=%s" % (pid, p)); nviol += 1
            log("  build %s does not follow the specification on slice %s: %s expected %s got %s" % (r["name"], tag, d.get("path"), json.dumps(d.get("exp"))[:80], json.dumps(d.get("act"))[:80]))
        if r["digest"] != ref["digest"]:
            # find the first differing event for the report
            p = vlib.save_replay(pid, "digest:" + r["name"], {"property": pid, "kind": "corpus", "build": r["name"], "reference": "O2/shared", "digest": r["digest"], "reference_digest": ref["digest"]})
            log("VIOLATION property=%s replay=%s" % (pid, p)); nviol += 1
            log("  build %s produced a different event stream than O2/shared on the damaged-file / print / vendor-file corpus" % r["name"])
    cov = {"states": states, "transitions": transitions, "traces_validated_against_impl": totals,
           "samples": [{"build": r["name"], "replayed": r["cases"], "mismatches": len(r["fails"]), "corpus_digest": r["digest"][:16]} for r in results],
           "builds": [r["name"] for r in results], "corpus_ops": len(ops),
           "rule": "the transitions of the TLA+ slices (with the specification's expected states, outcome classes and saved bytes) are replayed in each of the six builds "
                   "(-O0/-O2/-O3 x static/shared): each build must follow the specification; a second corpus (damaged files, print(), vendor files save/load) has no "
                   "expected values and must give byte-identical event streams in all builds"}
    cov["known_findings_observed"] = known_findings(pid, ez)
    vlib.write_evidence(pid, tier, "model_checking", cov, time.time() - t0, nviol, ["one compiler (g++ 12); the event stream contains values as bit patterns, exception classes, saved bytes and a hash of print() output"])
    log("[%s] %s: 6 builds x %d spec transitions replayed, corpus digests %s, %.0fs" % (pid, tier, transitions, "identical" if len({r["digest"] for r in results}) == 1 else "DIFFER", time.time() - t0))
    return 1 if nviol else 0

# ------------------------------------------------------------------ C18: threads
def run_threads(pid, tier, t0):
    import subprocess
    ez = report_replay.ez = vlib.build("tsan")
    work = vlib.scratch("c18")
    # per-thread call sequences = paths of the I/O slice (construct, declare, frames, save+load generations) with the spec's expected results
    edges = os.path.join(work, "edges")
    summ = vlib.dump_edges("MC_IO.tla", "MC_IO.cfg", io_consts("quick"), edges)
    lines = [l for l in open(edges) if l.startswith('"{')]
    cases = [json.loads(json.loads(l)) for l in lines]
    rnd = random.Random(vlib.seed())
    # deterministic leg: cases with exactly 3 calls (path of 2 + the call) for the TLC-enumerated interleavings of 2 threads x 3 calls;
    # they must contain a save+load so that file paths are exercised too
    three = [c_ for c_ in cases if len(c_["path"]) == 2]
    deep = sorted(cases, key=lambda c_: -len(c_["path"]))[:400]
    reload_deep = [c_ for c_ in deep if any(o.get("op") == "Reload" for o in c_["path"] + [c_["op"]])]
    two = [c_ for c_ in cases if len(c_["path"]) == 1]
    pool = three[:60] + two[:40] + reload_deep[:200] + rnd.sample(cases, min(200, len(cases)))
    # interleavings from the specification
    cfg = os.path.join(work, "thr.cfg")
    orders = []
    for nth, ln in ((2, 3), (3, 2)) if tier == "quick" else ((2, 3), (3, 2), (2, 4), (3, 3)):
        vlib.write_cfg(cfg, "EzThreads.cfg", {"NThreads": nth, "LenEach": ln})
        rc, out = vlib.run_tlc("EzThreads.tla", cfg, workers=1, timeout=600)
        if vlib.tlc_errors(out): raise Infra("EzThreads failed: %s" % out[-1500:])
        os_ = [json.loads(json.loads(l))["order"] for l in out.splitlines() if l.startswith('"{')]
        orders.append((nth, ln, os_))
    inp = os.path.join(work, "threads.in")
    nsched = 0
    with open(inp, "w") as f:
        for c_ in pool: f.write(json.dumps(c_) + "\n")
        bylen = {}
        for i, c_ in enumerate(pool): bylen.setdefault(len(c_["path"]) + 1, []).append(i)
        for nth, ln, os_ in orders:
            cand = bylen.get(ln, [])
            if len(cand) < nth: continue
            for o in os_:
                picks = rnd.sample(cand, nth)
                f.write(json.dumps({"cases": picks, "order": o}) + "\n"); nsched += 1
    env = dict(os.environ); env["TSAN_OPTIONS"] = "halt_on_error=1:exitcode=66:second_deadlock_stack=1"
    rounds = 60 if tier == "quick" else 600
    r = subprocess.run("%s threads --dir %s/w --threads 8 --rounds %d --seed %d < %s" % (ez, work, rounds, vlib.seed(), inp), shell=True,
                       stdout=subprocess.PIPE, stderr=subprocess.PIPE, text=True, env=env, timeout=3000)
    fails = []; summary = None
    for l in r.stdout.splitlines():
        if not l.strip(): continue
        j = json.loads(l)
        if j.get("summary"): summary = j
        else: fails.append(j)
    # cold starts: in a fresh process the very first objects are constructed by threads that start together (no scheduled leg, nothing
    # built by the main thread beforehand) - whatever the library initialises lazily on first use is initialised under contention
    cold = 10 if tier == "quick" else 60
    cinp = os.path.join(work, "cold.in")
    with open(cinp, "w") as f:
        # (a small pool: parsing dominates a short process) - mostly saves of text parameters with cells of unequal length (buffers that grow with
        # the content are first sized here), a few short construction sequences
        def text_save(c_):
            ops_ = c_["path"] + [c_["op"]]
            return any(o.get("op") == "Reload" for o in ops_) and any(o.get("op") == "SetParam" and any(s_.get("t") == -1 and len(s_.get("v", [])) > 1 for s_ in o["p"]["sets"]) for o in ops_)
        texty = [c_ for c_ in cases if text_save(c_)]
        rnd.shuffle(texty)
        for c_ in texty[:30] + three[:6] + two[:4]: f.write(json.dumps(c_) + "\n")
    cold_runs = 0
    for k in range(cold):
        rc_ = subprocess.run("%s threads --dir %s/c%d --threads %d --rounds 2 --seed %d < %s" % (ez, work, k, 2 + (k % 5) * 2 if k % 5 else 8, vlib.seed() + 7919 * (k + 1), cinp), shell=True,
                             stdout=subprocess.PIPE, stderr=subprocess.PIPE, text=True, env=env, timeout=600)
        csum = None
        for l in rc_.stdout.splitlines():
            if not l.strip(): continue
            j = json.loads(l)
            if j.get("summary"): csum = j
            else: fails.append(j)
        if csum: cold_runs += csum["cases"]
        if rc_.returncode != 0 or csum is None:
            r = rc_; summary = None
            break
    nviol = 0
    if r.returncode != 0 or summary is None:
        kind = "data race reported by ThreadSanitizer" if r.returncode == 66 or "ThreadSanitizer" in r.stderr else "abnormal termination (exit %s)" % r.returncode
        p = vlib.save_replay(pid, "tsan", {"property": pid, "kind": "threads", "what": kind, "stderr": r.stderr[-6000:]})
        log("VIOLATION property=%s replay=%s" % (pid, p)); nviol += 1
        log("  %s while %d threads replayed independent call sequences:\n%s" % (kind, 8, "\n".join("    " + x for x in r.stderr.splitlines()[:25])))
    keys = {}
    for f in fails:
        d = f["diffs"][0]
        keys.setdefault("%s:%s:%s" % (f["op"].get("op"), d["k"], norm_path(d.get("path", ""))), f)
    for key, f in list(keys.items())[:8]:
        p = vlib.save_replay(pid, key, {"property": pid, "kind": "replay", "path": f["path"], "op": f["op"], "diffs": f["diffs"], "note": "observed while other threads were running"})
        log("VIOLATION property=%s replay=%s" % (pid, p)); nviol += 1
        log("  a thread did not observe the single-thread result of its own call sequence: %s expected %s got %s" % (key, json.dumps(f["diffs"][0].get("exp"))[:100], json.dumps(f["diffs"][0].get("act"))[:100]))
    runs = summary["cases"] if summary else 0
    cov = {"evaluations": runs, "distinct_nontrivial": nsched + rounds,
           "rule": "one evaluation = one thread replaying a path of the MC_IO slice (own object, own directory) while the other threads do the same; "
                   "distinct schedules = %d TLC-enumerated call-granularity interleavings (EzThreads.tla: 2 threads x 3 calls, 3 threads x 2 calls%s) forced by token passing "
                   "+ %d free-running rounds of 8 threads under ThreadSanitizer (sampled OS schedules) + %d cold-start processes (2..8 threads construct the "
                   "process's first objects together); every thread's results are compared with the specification's" %
                   (nsched, "" if tier == "quick" else ", 2 x 4, 3 x 3", rounds, cold),
           "samples": [{"order": o_[2][0], "threads": o_[0]} for o_ in orders][:2] + [{"path_ops": [o.get("op") for o in pool[0]["path"]] + [pool[0]["op"].get("op")]}],
           "scheduled_interleavings": nsched, "free_rounds": rounds, "threads": 8, "thread_runs": runs, "mismatches": len(fails),
           "cold_start_processes": cold, "cold_start_thread_runs": cold_runs,
           "spec_states": summ["distinct"], "spec_transitions": summ["generated"] - 1}
    cov["known_findings_observed"] = known_findings(pid, ez)
    vlib.write_evidence(pid, tier, "exploration", cov, time.time() - t0, nviol,
                        ["call-granularity interleavings are enumerated by TLC and forced; instruction-level schedules are sampled (OS scheduler) under ThreadSanitizer"])
    log("[%s] %s: %d thread runs (%d forced interleavings, %d free rounds x 8 threads under TSan), %d mismatches, rc=%s, %.0fs" % (pid, tier, runs, nsched, rounds, len(fails), r.returncode, time.time() - t0))
    return 1 if nviol else 0

SAN_ENV = {"ASAN_OPTIONS": "detect_leaks=0:alloc_dealloc_mismatch=1:abort_on_error=1:detect_stack_use_after_return=0",
           "UBSAN_OPTIONS": "print_stacktrace=1:halt_on_error=1"}
def run_memsafe(pid, tier, t0):
    """C13: the histories come from the specification (every transition of the slices, refused calls included, objects
    destroyed at the end of every case); the sensor is ASan+UBSan+_GLIBCXX_ASSERTIONS: a report aborts the case = 'crash'."""
    os.environ.update(SAN_ENV)
    ez = report_replay.ez = vlib.build("asan")
    results = []
    q = tier == "quick"
    # (module, cfg, constants, tag, 1/k of the transitions replayed in quick): every replayed case executes its whole path from Init
    plan = [("MC_Shape.tla", "MC_Shape.cfg", shape_consts("quick"), "shape", 32),
            ("MC_IO.tla", "MC_IO.cfg", io_consts("quick"), "io", 3),
            ("MC_IO.tla", "MC_IO.cfg", io_values_consts("quick"), "iov", 3),
            ("MC_Format.tla", "MC_Format.cfg", {"Variant": '"layout"', "Full": "FALSE"}, "layout", 3),
            ("MC_Params.tla", "MC_Params.cfg", {"MaxVals": 2, "Deep": "FALSE"}, "params", 200),
            ("MC_Lookup.tla", "MC_Lookup.cfg", {"NPts": 2, "MaxFrames": 1}, "lookup", 48),
            ("MC_Frames.tla", "MC_Frames.cfg", frames_consts("quick") if not q else dict(frames_consts("quick"), MaxFrames=2, IdxSlack=2), "frames", 8),
            ("MC_Frames.tla", "MC_Frames.cfg", frames_configs("quick")[3][1] if not q else dict(frames_configs("quick")[3][1], MaxFrames=2, IdxSlack=2), "alias", 4),
            ("MC_Frames.tla", "MC_Frames.cfg", frames_configs("quick")[4][1], "shared", 8),
            ("MC_Modify.tla", "MC_Modify.cfg", {"Quick": "TRUE", "WithReload": "FALSE"}, "modify", 2),
            ("MC_Rates.tla", "MC_Rates.cfg", {"NP": 1, "NA": 1, "Quick": "TRUE", "MaxFrames": 2, "MaxPts": 1, "MaxCh": 1, "IdxSlack": 1}, "rates", 2)]
    if not q:
        plan += [("MC_IO.tla", "MC_IO.cfg", io_consts("thorough"), "io2", 1), ("MC_Format.tla", "MC_Format.cfg", {"Variant": '"patterns"', "Full": "FALSE"}, "patterns", 1)]
    stderr = ""
    for mod, cfg, consts, tag, sk in plan:
        res = vlib.replay_slice(mod, cfg, consts, ez, tag=tag, timeout=9000, sample_k=sk if q else max(1, sk // 4))
        results.append((mod[:-4] + "/" + tag, res)); stderr += res.get("stderr", "")
    rc = report_replay(pid, results, tier, t0, level="exploration", assumptions=[
        "sensor: clang ASan (alloc-dealloc-mismatch on) + UBSan (no recover) + _GLIBCXX_ASSERTIONS; a report aborts the replay case",
        "histories are the transitions of the TLA+ slices; look-ups, refused calls and destruction included"],
        extra_cov={"evaluations": sum(r["cases"] for _, r in results),
                   "distinct_nontrivial": sum(r["tlc"]["distinct"] for _, r in results),
                   "rule": "one evaluation = one transition of a TLA+ slice (path from Init + call) executed under ASan+UBSan in its own process, objects "
                           "destroyed at the end; distinct = distinct specification states reached (each is the end point of at least one executed history)"})
    if rc and stderr:
        log("  sanitizer output (first reports):\n" + "\n".join("    " + l for l in stderr.splitlines()[:40]))
    return rc

def run_format(pid, tier, t0):
    ez = report_replay.ez = vlib.build("plain")
    results = []
    if pid in ("C02", "C04"):
        results.append(("MC_Format/layout", vlib.replay_slice("MC_Format.tla", "MC_Format.cfg", {"Variant": '"layout"', "Full": "FALSE" if tier == "quick" else "TRUE"}, ez, tag="fmtlayout", timeout=6000)))
    if pid == "C12":
        results.append(("MC_Format/patterns", vlib.replay_slice("MC_Format.tla", "MC_Format.cfg", {"Variant": '"patterns"'}, ez, tag="fmtpat", timeout=6000)))
    if pid == "C04":
        results.append(("MC_IO", vlib.replay_slice("MC_IO.tla", "MC_IO.cfg", io_consts(tier), ez, tag="io", timeout=6000)))
        # load, edit, save, load, save over every residue of the parameter-section length (alignment sweep from a loaded object)
        results.append(("MC_Align/loaded", vlib.replay_slice("MC_Align.tla", "MC_Align.cfg", {"KMax": 255, "FromLoaded": "TRUE"}, ez, tag="align2", timeout=6000, workers=8)))
    extra = {}
    if pid == "C12":
        extra = {"exhaustive_integer_spaces": "all 256 byte values and all 65536 16-bit integer values are stored in parameters of the generated files; "
                 "the conversion lemmas Lemma_S16_LE16/U16/S8 are evaluated by TLC over all 2^8 / 2^16 values (ASSUME in MC_Format)",
                 "float_classes": "every exponent 0..255 x both signs x mantissa {0, 1, all ones, 0x555555} in points, residuals, analog samples, float parameters, event times"}
    return report_replay(pid, results, tier, t0, extra_cov=extra, assumptions=[
        "the files are produced by the specification's encoder EncodeWith; TLC checks (ASSUME FormatOracle) that the independent pointer-following decoder "
        "Decode returns the encoded content and that the reader model agrees, for every generated file",
        "rates in generated files come from the exact-rate table; the two multi-word reserved header fields are zero"])

CHECKS = {
    "C18": run_threads,
    "C19": run_builds,
    "C17": run_limits,
    "C16": run_corrupt,
    "C02": run_format, "C12": run_format,
    "C15": run_faults,
    "C13": run_memsafe,
    "C01": run_io, "C03": run_io, "C04": run_format, "C14": run_defined,
    "C11": run_lookup,
    "C09": run_params,
    "C06": run_frames,
    "C08": run_frames,
    "C05": run_shape,
    "C07": run_shape,
    "C10": run_shape,
}

def do_replay(pid, path):
    """Re-executes one saved failing case against /repo's current sources."""
    case = json.load(open(path))
    if case.get("kind") == "replay":
        ez = vlib.build("plain")
        import subprocess
        line = json.dumps({"path": case["path"], "op": case["op"], **({"post": case["post"]} if "post" in case else {})})
        r = subprocess.run([ez, "replay", "--dir", vlib.scratch("rp")], input=line + "\n", stdout=subprocess.PIPE, text=True)
        log(r.stdout)
        log("(expected differences at the time of the violation: %s)" % json.dumps(case.get("diffs"))[:1500])
        return 0
    if case.get("kind") == "corrupt":
        import subprocess
        os.environ.update(SAN_ENV)
        bad = vlib.build("asan", harness="ezcorrupt")
        d = vlib.scratch("rp"); os.makedirs(d + "/seeds")
        open(d + "/seeds/seed.%d" % case["mutation"]["seed"], "wb").write(bytes(case["seed_bytes"]))
        r = subprocess.run([bad, "--seeds", d + "/seeds", "--dir", d + "/w"], input=json.dumps(case["mutation"]) + "\n", stdout=subprocess.PIPE, stderr=subprocess.PIPE, text=True)
        log(r.stdout); log(r.stderr[-4000:])
        return 0
    if case.get("kind") == "fault":
        ez = vlib.build("plain")
        e = case["event"]
        evs, raw = vlib.run_ops(ez, [dict(o, post=0) for o in case["build_ops"]] + [{"op": "FaultSweep", "label": e["obj"], "kinds": [] if e["kind"] == "fsize" else [e["kind"]], "ks": [e["k"]] if e["kind"] == "fsize" else []}])
        log(raw[-2000:])
        return 0
    if case.get("kind") == "trace":
        ez = vlib.build("plain")
        ops = [e["args"] for e in case["events"]]
        evs, raw = vlib.run_ops(ez, ops)
        work = vlib.scratch("rp"); tp = os.path.join(work, "t.ndjson")
        with open(tp, "w") as f:
            for ev in evs:
                rec = {"e": ev["e"], "args": ev["args"], "out": ev["out"]}
                for kk in ("post", "sets", "res"):
                    if kk in ev: rec[kk] = ev[kk]
                f.write(json.dumps(rec) + "\n")
        ok, at, summ, out = vlib.validate_trace("EzTrace.tla", "EzTrace.cfg", tp)
        log("trace of %d calls re-recorded from the current tree: %s by EzTrace.tla%s" % (len(evs), "accepted" if ok else "REJECTED", "" if ok else " (first rejected line %s)" % at))
        log("(rejection at the time of the violation: %s)" % case.get("rejection"))
        return 0
    if case.get("kind") == "limit":
        ez = vlib.build("plain")
        if isinstance(case.get("ops"), list):
            evs, raw = vlib.run_ops(ez, [{"op": "Reset"}] + [dict(o, post=0) for o in case["ops"]] + [{"op": "Save", "path": "lim.c3d", "o": 1, "post": 0}, {"op": "Load", "o": 2, "path": "lim.c3d", "post": 0}])
            log("save: %s, load: %s" % (evs[-2]["out"], evs[-1]["out"]))
        log("event at the time of the violation: %s" % json.dumps(case["event"]))
        return 0
    if case.get("kind") in ("threads", "corpus"):
        log(json.dumps({kk: vv for kk, vv in case.items() if kk != "stderr"})[:3000]); log(case.get("stderr", "")[-3000:])
        log("re-run the check itself to reproduce (schedules are seeded by VERIF_SEED).")
        return 0
    raise Infra("unknown replay kind in %s" % path)

def main():
    args = sys.argv[1:]
    if not args:
        print(__doc__); return 2
    pid = args[0]
    tier = os.environ.get("VERIF_TIER", "quick")
    replay = None
    i = 1
    while i < len(args):
        if args[i] in ("quick", "thorough"): tier = args[i]
        elif args[i] == "--replay": replay = args[i + 1]; i += 1
        i += 1
    t0 = time.time()
    try:
        if replay:
            return do_replay(pid, replay)
        if pid not in CHECKS:
            raise Infra("no check registered for %s" % pid)
        return CHECKS[pid](pid, tier, t0)
    except Infra as e:
        if vlib.VIOLATION_LINES[0]:
            # a later leg of the check could not run (e.g. the recorded test suite does not even complete with the changed library),
            # but violations of the property were already found and reported: that is the verdict
            log("note: a later leg of this check ended early (%s); the violations above stand" % str(e)[:300])
            return 1
        log("INFRA-ERROR property=%s %s" % (pid, e))
        return 2

if __name__ == "__main__":
    sys.exit(main())
