#!/usr/bin/env python3
"""Seeded random histories over the action alphabet of EzApi, generated adaptively against the running harness
(the next call is chosen from the real object's current state), recorded as an ndjson trace for EzTrace.tla.
Sizes go well beyond the model-checked bounds (up to 6 points, 3 channels, 3 sub-frames, 8 frames)."""
import json, random, subprocess, sys, os
sys.path.insert(0, os.path.dirname(os.path.abspath(__file__)))
import vlib

RATES = {50: [0, 0, 72, 66], 100: [0, 0, 200, 66], 200: [0, 0, 72, 67], 300: [0, 0, 150, 67], 0: [0, 0, 0, 0]}
EXOTIC = [[0, 0, 0, 128], [1, 0, 0, 0], [0, 0, 128, 127], [0, 0, 128, 255], [1, 0, 128, 127], [0, 0, 192, 127], [255, 255, 127, 127]]

class Driver:
    def __init__(self, ez, seed, workdir):
        self.rnd = random.Random(seed)
        self.p = subprocess.Popen([ez, "run", "--dir", workdir], stdin=subprocess.PIPE, stdout=subprocess.PIPE, text=True, bufsize=1)
        self.events = []
        self.post = None
    def call(self, op):
        self.p.stdin.write(json.dumps(op) + "\n"); self.p.stdin.flush()
        line = self.p.stdout.readline()
        if not line: raise vlib.Infra("harness died on %s" % json.dumps(op)[:300])
        ev = json.loads(line)
        if "post" in ev: self.post = ev["post"]
        rec = {"e": ev["e"], "args": ev["args"], "out": ev["out"]}
        for k in ("post", "sets", "res"):
            if k in ev: rec[k] = ev[k]
        self.events.append(rec)
        return ev
    def close(self):
        self.p.stdin.close(); self.p.wait()
    # ---- views of the real state
    def param(self, g, n):
        for grp in self.post["grp"]:
            if vlib.uncodes(grp["n"]) == g:
                for p in grp["p"]:
                    if vlib.uncodes(p["n"]) == n: return p
        return None
    def labels(self, g): return [vlib.uncodes(x) for x in self.param(g, "LABELS")["v"]]
    def f32(self):
        r = self.rnd
        return r.choice(EXOTIC) if r.random() < 0.15 else [r.randrange(256) for _ in range(3)] + [r.choice((63, 64, 65, 66, 191, 192, 193))]
    def frame(self, pnames, nsub, anames):
        return {"p": [{"n": vlib.codes(n), "v": [self.f32() for _ in range(4)]} for n in pnames],
                "a": [[{"n": vlib.codes(n), "v": self.f32()} for n in anames] for _ in range(nsub)]}

def history(d, steps):
    r = d.rnd
    d.call({"op": "New", "o": 1})
    pool_p = ["P%d" % i for i in range(1, 7)] + ["Px  ", "m "]
    pool_a = ["A%d" % i for i in range(1, 4)] + ["Ax "]
    ugroups = ["USER", "EXTRA"]
    for _ in range(steps):
        post = d.post
        nf = len(post["frm"])
        pl, al = d.labels("POINT"), d.labels("ANALOG")
        prate = d.param("POINT", "RATE")["v"][0]; arate = d.param("ANALOG", "RATE")["v"][0]
        hasgap = any(len(f["p"]) == 0 and len(f["a"]) == 0 for f in post["frm"])
        perframe = post["hdr"]["perframe"]; aused = d.param("ANALOG", "USED")["v"][0]; pused = d.param("POINT", "USED")["v"][0]
        choice = r.random()
        if choice < 0.10 and nf == 0:
            g, table = r.choice((("POINT", (100, 100, 50, 0)), ("ANALOG", (100, 200, 300, 0))))
            d.call({"op": "SetParam", "g": vlib.codes(g), "p": {"n": vlib.codes("RATE"), "d": [], "l": 1, "sets": [{"t": 4, "v": [RATES[r.choice(table)]], "dim": [], "scalar": 1}]}})
        elif choice < 0.22:
            cand = [n for n in pool_p if n.rstrip(" ") not in pl]
            if cand and len(pl) < 6 and not (nf > 0 and hasgap) and (nf == 0 or pused == len(pl)):
                d.call({"op": "DeclPoint", "n": vlib.codes(r.choice(cand))})
        elif choice < 0.32:
            cand = [n for n in pool_a if n.rstrip(" ") not in al]
            if cand and len(al) < 3 and not (nf > 0 and hasgap) and (nf == 0 or aused == len(al)):
                d.call({"op": "DeclAnalog", "n": vlib.codes(r.choice(cand))})
        elif choice < 0.62:
            if nf >= 8 and r.random() < 0.7: continue
            nsub = perframe if aused > 0 else 0
            kind = r.choice(("conf",) * 7 + ("lesspt", "morept", "rename", "morech", "empty"))
            pn, an = list(pl), list(al)
            if kind == "lesspt" and pn: pn = pn[:-1]
            elif kind == "morept" and pn: pn = pn + ["ZZ"]
            elif kind == "rename" and pn: pn = ["ZZ"] + pn[1:]
            elif kind == "morech" and an and nsub: an = an + ["YY"]
            elif kind == "empty": pn, an, nsub = [], [], 0
            if len(pl) != pused or len(al) != aused: continue          # labels out of step with the counts: contract-silent territory
            idx = -1 if r.random() < 0.6 else r.randrange(0, nf + 2)
            d.call({"op": "AddFrame", "idx": idx, "frame": d.frame(pn, nsub, an)})
        elif choice < 0.70 and nf > 0 and not hasgap and pused == len(pl):
            cand = [n for n in pool_p if n.rstrip(" ") not in pl]
            if not cand or len(pl) >= 6: continue
            kind = r.choice(("ok", "ok", "dup", "short", "fewer"))
            k = 2 if kind == "short" and len(cand) > 1 and len(pl) <= 4 else 1
            names = cand[:k] if kind != "dup" or not pl else [pl[0]]
            frames = [d.frame(names, 0, []) for _ in range(nf - (1 if kind == "fewer" else 0))]
            if kind == "short" and k == 2 and nf > 1: frames[-1]["p"] = frames[-1]["p"][:1]
            d.call({"op": "AddPointCols", "frames": frames})
        elif choice < 0.76 and nf > 0 and not hasgap and aused == len(al) and perframe > 0 and all(len(f["a"]) == perframe for f in post["frm"]):
            cand = [n for n in pool_a if n.rstrip(" ") not in al]
            if not cand or len(al) >= 3: continue
            kind = r.choice(("ok", "ok", "dup", "lesssub"))
            names = [cand[0]] if kind != "dup" or not al else [al[0]]
            ns = perframe - (1 if kind == "lesssub" else 0)
            d.call({"op": "AddAnalogCols", "frames": [d.frame([], ns, names) for _ in range(nf)]})
        elif choice < 0.86:
            g = r.choice(ugroups); n = r.choice(("ALPHA", "BETA", "GAMMA"))
            t = r.choice((2, 4, -1))
            nv = r.randrange(0, 5)
            vals = [r.randrange(-32768, 32768) for _ in range(nv)] if t == 2 else [d.f32() for _ in range(nv)] if t == 4 else [vlib.codes(r.choice(("", "a", "hello", "x y "))) for _ in range(nv)]
            dim = r.choice(([], [], [nv], [1, nv], [nv, 1], [2, 2], [nv + 1], [1, 1, 1, 1, 1, 1, nv]))
            d.call({"op": "SetParam", "g": vlib.codes(g), "p": {"n": vlib.codes(n), "d": vlib.codes(r.choice(("", "some description", "d" * 200))), "l": r.randrange(2),
                                                                  "sets": [{"t": t, "v": vals, "dim": dim, "scalar": 0}]}})
        elif choice < 0.90:
            d.call({"op": r.choice(("LockGroup", "UnlockGroup")), "g": vlib.codes(r.choice(ugroups + ["POINT", "NOPE"]))})
        elif choice < 0.96:
            if not hasgap: d.call({"op": "Reload", "path": "reload.c3d"})
        else:
            q = r.choice(({"q": "frame", "f": r.randrange(0, nf + 2)}, {"q": "point", "f": r.randrange(0, nf + 1), "i": r.randrange(0, 8)},
                           {"q": "groupByName", "name": vlib.codes(r.choice(("POINT", "USER", "nope")))}, {"q": "evt", "i": r.randrange(0, 20)}))
            d.call(dict({"op": "Get", "post": 0}, **q))

def generate(ez, seed, nhist, steps, out_path):
    """Writes nhist trace files (one history each) named out_path.<i>; returns (paths, number of events)."""
    paths = []; total = 0
    for i in range(nhist):
        w = vlib.scratch("rand")
        d = Driver(ez, seed * 1000 + i, w)
        history(d, steps)
        d.close()
        p = "%s.%d" % (out_path, i)
        with open(p, "w") as f:
            for ev in d.events: f.write(json.dumps(ev) + "\n")
        paths.append(p); total += len(d.events)
    return paths, total

if __name__ == "__main__":
    ez = vlib.build("plain")
    paths, n = generate(ez, int(sys.argv[1]) if len(sys.argv) > 1 else 1, 2, 30, "/tmp/randtrace")
    print(paths, n)
