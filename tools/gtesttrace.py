#!/usr/bin/env python3
"""Builds the repository's own test suite (unedited) against a hook-enabled build of /repo's current sources, runs it with
EZC3D_VERIF_TRACE set, splits the recorded events per c3d object and validates every object's history with TLC against
spec/EzTrace.tla. Calls outside the modelled alphabet (loading the multi-megabyte vendor files; a few contract-silent frames in
the tests) are matched by counted Havoc steps: the specification re-synchronises on the recorded state and the rest of the
history is still checked. Returns (coverage dict, list of rejections)."""
import json, os, subprocess, sys, shutil, concurrent.futures, re
sys.path.insert(0, os.path.dirname(os.path.abspath(__file__)))
import vlib

def build_and_run(repo=vlib.REPO):
    out = vlib.scratch("gtest")
    gt = os.path.join(repo, "external", "gtest", "googletest")
    if not os.path.exists(os.path.join(gt, "src", "gtest-all.cc")):
        gt = "/usr/src/googletest/googletest"
    srcs = sorted(os.path.join(repo, "src", f) for f in os.listdir(os.path.join(repo, "src")) if f.endswith(".cpp"))
    objs = []
    cmds = []
    flags = ["-std=c++11", "-O1", "-DMELUND_EZC3D_VERIF", "-I" + os.path.join(vlib.VERIF, "harness"), "-I" + os.path.join(repo, "include"),
             "-I" + os.path.join(gt, "include"), "-I" + gt]
    for s in srcs + [os.path.join(repo, "test", "test_ezc3d.cpp"), os.path.join(gt, "src", "gtest-all.cc"), os.path.join(gt, "src", "gtest_main.cc")]:
        o = os.path.join(out, os.path.basename(s) + ".o"); objs.append(o)
        cmds.append(["g++"] + flags + ["-c", s, "-o", o])
    with concurrent.futures.ThreadPoolExecutor(max_workers=vlib.NCPU) as ex:
        rs = list(ex.map(lambda c: subprocess.run(c, stdout=subprocess.PIPE, stderr=subprocess.STDOUT, text=True), cmds))
    for r in rs:
        if r.returncode != 0: raise vlib.Infra("hook-enabled test build failed:\n" + r.stdout[-2000:])
    exe = os.path.join(out, "runUnitTests")
    r = subprocess.run(["g++"] + objs + ["-o", exe, "-lpthread"], stdout=subprocess.PIPE, stderr=subprocess.STDOUT, text=True)
    if r.returncode != 0: raise vlib.Infra("hook-enabled test link failed:\n" + r.stdout[-2000:])
    run = os.path.join(out, "run"); os.makedirs(os.path.join(run, "c3dTestFiles"))
    for f in os.listdir(os.path.join(repo, "test", "c3dFiles")):
        shutil.copy(os.path.join(repo, "test", "c3dFiles", f), os.path.join(run, "c3dTestFiles", f))
    trace = os.path.join(out, "gtest.ndjson")
    env = dict(os.environ); env["EZC3D_VERIF_TRACE"] = trace
    r = subprocess.run([exe], cwd=run, env=env, stdout=subprocess.PIPE, stderr=subprocess.STDOUT, text=True, timeout=900)
    m = re.search(r"\[  PASSED  \] (\d+) tests", r.stdout)
    return trace, (int(m.group(1)) if m else 0), r.returncode

def split_objects(trace):
    objs = {}
    for line in open(trace):
        ev = json.loads(line)
        objs.setdefault(ev["o"], []).append(ev)
    return objs

def to_trace_lines(evs):
    """Events of one object -> EzTrace lines. New stays; Load of a file becomes a Havoc (state taken from the record); Destroy is dropped."""
    lines = []; havoc = 0
    for ev in evs:
        e = ev["e"]
        if e == "Destroy": continue
        rec = {"e": e, "args": ev["args"], "out": ev["out"]}
        if "post" in ev: rec["post"] = ev["post"]
        if e == "Load":
            if len(json.dumps(ev.get("post", {}))) > 400000:
                return [], 0              # a multi-megabyte vendor file: only read afterwards, nothing to validate against the specification
            rec["e"] = "Havoc"; havoc += 1
        lines.append(rec)
    return lines, havoc

def validate_object(lines, work, name):
    """Validates one object's history; lines with no enabled specification action are turned into Havoc steps (counted) and the
    validation is repeated, so that the rest of the history is still checked. A line that *is* a specification step but whose
    recorded state differs is a rejection."""
    havoc = 0
    for attempt in range(12):
        p = os.path.join(work, "%s.%d.ndjson" % (name, attempt))
        with open(p, "w") as f:
            for l in lines: f.write(json.dumps(l) + "\n")
        ok, at, summ, out = vlib.validate_trace("EzTrace.tla", "EzTrace.cfg", p, timeout=1500)
        if ok: return True, havoc, None
        m = re.search(r'obs = (<<"line".*?)\n/\\', out, re.S)
        inv = [e for e in vlib.tlc_errors(out) if "Invariant" in e or "property" in e.lower()]
        if m or (inv and not at):
            desc = re.sub(r"\s+", " ", m.group(1))[:500] if m else "; ".join(inv)[:300]
            return False, havoc, desc
        if at and at - 1 < len(lines) and lines[at - 1]["e"] != "Havoc" and "post" in lines[at - 1]:
            lines[at - 1] = dict(lines[at - 1], e="Havoc"); havoc += 1      # outside the alphabet: re-synchronise, keep checking
            continue
        return False, havoc, "no specification action matches line %s" % at
    return False, havoc, "too many calls outside the alphabet"

def run(repo=vlib.REPO):
    trace, passed, rc = build_and_run(repo)
    objs = split_objects(trace)
    work = vlib.scratch("gtrace")
    results = []
    def one(item):
        oid, evs = item
        lines, h0 = to_trace_lines(evs)
        if not lines: return (oid, True, 0, None, 0)
        ok, h, desc = validate_object(lines, work, "obj%s" % oid)
        return (oid, ok, h0 + h, desc, len(lines))
    with concurrent.futures.ThreadPoolExecutor(max_workers=8) as ex:
        results = list(ex.map(one, sorted(objs.items())))
    cov = {"gtest_tests_passed_with_hooks": passed, "gtest_objects": len(objs), "gtest_events": sum(r[4] for r in results),
           "gtest_objects_accepted": sum(1 for r in results if r[1]), "gtest_havoc_steps": sum(r[2] for r in results)}
    rej = [(r[0], r[3]) for r in results if not r[1]]
    return cov, rej

if __name__ == "__main__":
    cov, rej = run()
    print(json.dumps(cov)); print(rej[:5])
