"""Shared machinery of the ezc3d checks: scratch dirs, harness builds, TLC runs, replay of TLC's
transitions on the real code, trace validation, findings ledger, evidence files.
Python 3 standard library only."""
import atexit, json, os, re, shutil, subprocess, sys, tempfile, time, glob, hashlib

os.environ.setdefault("JAVA_TOOL_OPTIONS", "-Xss64m")
# bin/tlc = the pre-installed TLC with -Xss64m on the command line: the launcher's main thread (ASSUMEs, constant definitions) only gets a
# larger stack that way
os.environ["PATH"] = os.path.join(os.path.dirname(os.path.dirname(os.path.abspath(__file__))), "bin") + os.pathsep + os.environ.get("PATH", "")
os.environ.setdefault("SAMPLEK", "1")   # the file-format operators recurse over byte sequences
VERIF = os.path.dirname(os.path.dirname(os.path.abspath(__file__)))      # relocatable: a snapshot of /verif (vp run) uses its own files
REPO = os.environ.get("EZC3D_REPO", "/repo")       # registered commands never set this: it exists so that seeded changes can be tried on a scratch copy
SPEC = os.path.join(VERIF, "spec")
NCPU = os.cpu_count() or 8

_scratch = []
def scratch(prefix="ezv"):
    d = tempfile.mkdtemp(prefix=prefix + ".", dir="/tmp")
    _scratch.append(d)
    return d
def _cleanup():
    for d in _scratch:
        shutil.rmtree(d, ignore_errors=True)
atexit.register(_cleanup)

def seed():
    try:
        return int(os.environ.get("VERIF_SEED", "1"))
    except ValueError:
        return 1

VIOLATION_LINES = [0]
def log(*a):
    if a and isinstance(a[0], str) and a[0].startswith("VIOLATION "): VIOLATION_LINES[0] += 1
    print(*a, flush=True)

class Infra(Exception):
    """Infrastructure failure (build, TLC crash, harness error): exit 2, never a VIOLATION."""

# ---------------------------------------------------------------- builds
def build(variant="plain", harness="ezdrive", shared=False, extra="", libs="", repo=REPO):
    """Compiles /repo's *current* sources plus a harness into a fresh scratch dir; returns the binary path."""
    out = scratch("ezb-" + variant)
    cmd = ["make", "-s", "-f", os.path.join(VERIF, "harness", "Makefile"), "VERIF=" + VERIF, "OUT=" + out, "VARIANT=" + variant,
           "HARNESS=" + harness, "REPO=" + repo, "-j%d" % NCPU]
    if shared: cmd.append("SHARED=1")
    if extra: cmd.append("EXTRA=" + extra)
    if libs: cmd.append("LIBS=" + libs)
    t0 = time.time()
    r = subprocess.run(cmd, stdout=subprocess.PIPE, stderr=subprocess.STDOUT, text=True)
    if r.returncode != 0:
        # a source change that no longer compiles is not a property violation
        raise Infra("build failed (%s/%s):\n%s" % (variant, harness, r.stdout[-3000:]))
    log("[build] %s/%s in %.1fs" % (variant, harness, time.time() - t0))
    return os.path.join(out, harness)

# ---------------------------------------------------------------- TLC
TLC_STATS = re.compile(r"(\d+) states generated, (\d+) distinct states found, (\d+) states left on queue")

def write_cfg(path, template, consts, extra_lines=()):
    """template: a .cfg in /verif/spec whose 'NAME = value' constant lines are overridden by consts."""
    txt = open(os.path.join(SPEC, template)).read()
    for k, v in consts.items():
        txt, n = re.subn(r"(?m)^(\s*%s\s*=\s*).*$" % re.escape(k), lambda m: m.group(1) + str(v), txt)
        if n == 0:
            raise Infra("constant %s not in %s" % (k, template))
    txt += "\n" + "\n".join(extra_lines) + "\n"
    open(path, "w").write(txt)

def tlc_cmd(module, cfg, metadir, workers, simulate=None, heap="8g", deque=False):
    jopts = "-Xmx%s -XX:+UseParallelGC" % heap
    if deque:
        jopts += " -Dtlc2.tool.queue.IStateQueue=StateDeque"
    cmd = ["java"] + jopts.split() + ["-cp", "/opt/veriftools/tla/tla2tools.jar:/opt/veriftools/tla/CommunityModules-deps.jar",
           "tlc2.TLC", "-workers", str(workers), "-metadir", metadir, "-config", cfg]
    if simulate:
        cmd += ["-simulate", simulate]
    cmd.append(module)
    return cmd

def find_tlc_classpath():
    # the `tlc` wrapper knows the classpath; reuse it
    w = shutil.which("tlc")
    txt = open(w).read() if w else ""
    m = re.search(r"-cp\s+(\S+)", txt)
    return m.group(1).strip('"') if m else None

def run_tlc(module, cfg, workers=None, timeout=1800, env=None, cwd=SPEC, extra_args=(), capture_to=None):
    """Runs TLC (no edge export). Returns (returncode, output text)."""
    md = scratch("tlcmeta")
    cmd = ["timeout", str(timeout), "tlc", "-noGenerateSpecTE", "-workers", str(workers or NCPU), "-metadir", md, "-config", cfg] + list(extra_args) + [module]
    e = dict(os.environ)
    if env: e.update(env)
    r = subprocess.run(cmd, cwd=cwd, stdout=subprocess.PIPE, stderr=subprocess.STDOUT, text=True, env=e)
    shutil.rmtree(md, ignore_errors=True)
    if capture_to:
        open(capture_to, "w").write(r.stdout)
    return r.returncode, r.stdout

def tlc_summary(out):
    m = None
    for m in TLC_STATS.finditer(out):
        pass
    if not m:
        return None
    gen, dist, left = int(m.group(1)), int(m.group(2)), int(m.group(3))
    depth = re.search(r"depth of the complete state graph search is (\d+)", out)
    return {"generated": gen, "distinct": dist, "left": left, "depth": int(depth.group(1)) if depth else None}

def tlc_errors(out):
    errs = []
    for m in re.finditer(r"Error: (.*)", out):
        if "behavior up to this point" in m.group(1):
            continue
        errs.append(m.group(1).strip())
    return errs

def condensed_trace(out):
    """op names of the last state's history in a TLC error trace (for diagnostics)."""
    idx = out.rfind("/\\ hist =")
    if idx < 0:
        return []
    blk = out[idx:]
    end = blk.find("\n/\\ ", 5)
    return re.findall(r'op \|-> "(\w+)"', blk[:end if end > 0 else None])

def replay_slice(module, cfg_template, consts, ezdrive, **kw):
    """see _replay_slice; a TLC error on the specification itself is re-tried once (TLC's multi-worker evaluation of shared values has shown
    rare spurious evaluation errors: 'model failure = exit 2, report only what repeats')."""
    res = _replay_slice(module, cfg_template, consts, ezdrive, **kw)
    if res["tlc_errors"]:
        log("[tlc] %s reported %s; running it once more with one worker" % (module, res["tlc_errors"][:1]))
        kw2 = dict(kw); kw2["workers"] = 1
        res = _replay_slice(module, cfg_template, consts, ezdrive, **kw2)
    return res

def _replay_slice(module, cfg_template, consts, ezdrive, workers=None, nproc=None, timeout=1800, tag="slice", sample_every=9973, keep_mod=1, sample_k=1):
    """TLC explores the bounded instance, checks its invariants/properties, and prints every transition
    (ACTION_CONSTRAINT Dump); the stream is split round-robin over nproc `ezdrive replay` processes that execute
    path+op on the real object and compare with the specification's post-state. Nothing is stored but failures."""
    work = scratch("replay-" + tag)
    cfg = os.path.join(work, "mc.cfg")
    write_cfg(cfg, cfg_template, consts, ["ACTION_CONSTRAINT Dump"])
    md = os.path.join(work, "meta")
    nproc = nproc or NCPU
    workers = workers or NCPU
    tlclog = os.path.join(work, "tlc.log")
    # bash pipeline: TLC | tee(non-edge lines -> log) | grep edges | split -> ezdrive replay
    keep = ("| awk 'NR %% %d == %d' " % (keep_mod, seed() % keep_mod)) if keep_mod > 1 else ""
    pipe = ("set -o pipefail; SAMPLEK=%d timeout %d tlc -noGenerateSpecTE -seed %d -workers %d -metadir %s -config %s %s 2>&1 " % (sample_k, timeout, seed(), workers, md, cfg, module)
            + "| tee >(grep -v '^\"{' > %s) | grep '^\"{' | tee >(awk '(NR==5 || NR%%%d==77) && c<4 {print; c++}' > %s/samples.txt) " % (tlclog, sample_every, work)
            + keep
            + "| split -n r/%d -u --filter='%s replay --dir %s/d.$FILE > %s/out.$FILE 2> %s/err.$FILE' - x" % (nproc, ezdrive, work, work, work))
    t0 = time.time()
    r = subprocess.run(["bash", "-c", pipe], cwd=SPEC, stdout=subprocess.PIPE, stderr=subprocess.STDOUT, text=True)
    wall = time.time() - t0
    time.sleep(0.2)
    out = open(tlclog).read() if os.path.exists(tlclog) else ""
    summ = tlc_summary(out)
    errs = tlc_errors(out)
    fails, cases, crashes = [], 0, 0
    hist = {}
    for f in sorted(glob.glob(os.path.join(work, "out.x*"))):
        got_summary = False
        for line in open(f):
            line = line.strip()
            if not line: continue
            try:
                j = json.loads(line)
            except ValueError:
                raise Infra("unparsable replay output in %s: %s" % (f, line[:200]))
            if j.get("summary"):
                cases += j["cases"]; crashes += j.get("crashes", 0); got_summary = True
                for hk, hv in j.get("hist", {}).items(): hist[hk] = hist.get(hk, 0) + hv
            else:
                fails.append(j)
        if not got_summary:
            raise Infra("replay process died (%s): %s" % (f, r.stdout[-500:]))
    shutil.rmtree(md, ignore_errors=True)
    stderr_tail = ""
    for f in sorted(glob.glob(os.path.join(work, "err.x*"))):
        t = open(f, errors="replace").read()
        if t.strip():
            stderr_tail += t[:3000]
            if len(stderr_tail) > 9000: break
    samples = []
    sp = os.path.join(work, "samples.txt")
    if os.path.exists(sp):
        for line in open(sp):
            try:
                c = json.loads(json.loads(line))
                samples.append({"history": [short_op(o) for o in c["path"]], "call": short_op(c["op"]), "expected_outcome": c.get("out")})
            except ValueError:
                pass
    res = {"tlc": summ, "samples": samples, "stderr": stderr_tail, "keep_mod": keep_mod * sample_k, "hist": hist, "tlc_errors": errs, "tlc_out_tail": out[-3000:], "cases": cases, "fails": fails, "crashes": crashes,
           "wall": wall, "trace_ops": condensed_trace(out), "rc": r.returncode, "pipe_out": r.stdout[-1000:]}
    if summ is None:
        raise Infra("TLC produced no summary for %s:\n%s\n%s" % (module, out[-2000:], r.stdout[-1000:]))
    if summ["left"] != 0 and not errs:
        raise Infra("TLC did not finish %s within %ds (%s)" % (module, timeout, summ))
    return res

# ---------------------------------------------------------------- findings ledger
def load_ledger():
    p = os.path.join(VERIF, "known_findings.json")
    if not os.path.exists(p):
        return []
    return json.load(open(p)).get("findings", [])

# ---------------------------------------------------------------- evidence
def write_evidence(pid, tier, level, coverage, wall, violations, assumptions=()):
    ev = {"property_id": pid, "tier": tier, "seed": seed(), "level": level, "coverage": coverage,
          "assumptions": list(assumptions), "wall_s": round(wall, 2), "violations": violations}
    os.makedirs(os.path.join(VERIF, "evidence"), exist_ok=True)
    with open(os.path.join(VERIF, "evidence", pid + ".json"), "w") as f:
        json.dump(ev, f, indent=1)
        f.write("\n")

def save_replay(pid, key, payload):
    os.makedirs(os.path.join(VERIF, "replays"), exist_ok=True)
    h = hashlib.sha1(key.encode()).hexdigest()[:10]
    p = os.path.join(VERIF, "replays", "%s-%s.json" % (pid, h))
    with open(p, "w") as f:
        json.dump(payload, f)
        f.write("\n")
    return p

def codes(s):
    return [ord(c) for c in s]
def uncodes(a):
    return "".join(chr(c) for c in a)
def opname(op):
    return op.get("op", "?")
def short_op(op):
    """compact, human readable rendering of a harness op"""
    o = dict(op)
    for k in ("n", "g", "name"):
        if k in o and isinstance(o[k], list):
            o[k] = uncodes(o[k])
    if "frame" in o:
        f = o["frame"]
        o["frame"] = {"p": [uncodes(p["n"]) for p in f.get("p", [])], "a": [[uncodes(c["n"]) for c in s] for s in f.get("a", [])]}
    if "frames" in o:
        o["frames"] = [{"p": [uncodes(p["n"]) for p in f.get("p", [])], "a": [[uncodes(c["n"]) for c in s] for s in f.get("a", [])]} for f in o["frames"]]
    if "p" in o and isinstance(o["p"], dict):
        p = dict(o["p"])
        for k in ("n", "d"):
            if k in p: p[k] = uncodes(p[k])
        o["p"] = p
    return o


# ---------------------------------------------------------------- trace validation (direction A)
def validate_trace(module, cfg, trace_path, timeout=900, workers=1, extra_env=None):
    """TLC checks a recorded ndjson trace against a trace specification (POSTCONDITION TraceAccepted).
    Returns (accepted, rejected_at_line or None, summary, output)."""
    env = {"TRACE": trace_path}
    if extra_env: env.update(extra_env)
    rc, out = run_tlc(module, cfg, workers=workers, timeout=timeout, env=env)
    summ = tlc_summary(out)
    m = re.search(r'"TRACE-REJECTED-AT",\s*(\d+)', out)
    errs = tlc_errors(out)
    if summ is None or (errs and not m and "Invariant" not in " ".join(errs) and "property" not in " ".join(errs).lower()):
        raise Infra("TLC failed on trace %s with %s/%s:\n%s" % (trace_path, module, cfg, out[-2500:]))
    accepted = not errs and m is None
    return accepted, (int(m.group(1)) if m else None), summ, out

def run_ops(ezdrive, ops, workdir=None, timeout=600, env=None):
    """Feeds ops (list of dicts) to `ezdrive run`; returns the list of event dicts and the raw text."""
    d = workdir or scratch("run")
    e = dict(os.environ)
    if env: e.update(env)
    r = subprocess.run([ezdrive, "run", "--dir", d], input="\n".join(json.dumps(o) for o in ops) + "\n",
                       stdout=subprocess.PIPE, stderr=subprocess.PIPE, text=True, timeout=timeout, env=e)
    if r.returncode not in (0,):
        raise Infra("ezdrive run failed rc=%s: %s" % (r.returncode, r.stderr[-1500:]))
    evs = [json.loads(l) for l in r.stdout.splitlines() if l.strip()]
    return evs, r.stdout


def dump_edges(module, cfg_template, consts, path, workers=None, timeout=1800):
    """TLC explores the instance and writes every transition (one JSON line each, already unquoted) to `path`."""
    work = scratch("edges")
    cfg = os.path.join(work, "mc.cfg")
    write_cfg(cfg, cfg_template, consts, ["ACTION_CONSTRAINT Dump"])
    md = os.path.join(work, "meta")
    tlclog = os.path.join(work, "tlc.log")
    pipe = ("set -o pipefail; timeout %d tlc -noGenerateSpecTE -workers %d -metadir %s -config %s %s 2>&1 | tee >(grep -v '^\"{' > %s) | grep '^\"{' > %s"
            % (timeout, workers or NCPU, md, cfg, module, tlclog, path))
    r = subprocess.run(["bash", "-c", pipe], cwd=SPEC, stdout=subprocess.PIPE, stderr=subprocess.STDOUT, text=True)
    time.sleep(0.2)
    out = open(tlclog).read() if os.path.exists(tlclog) else ""
    summ = tlc_summary(out)
    shutil.rmtree(md, ignore_errors=True)
    if summ is None or tlc_errors(out) or summ["left"] != 0:
        if workers != 1:
            log("[tlc] %s reported %s; running it once more with one worker" % (module, tlc_errors(out)[:1]))
            return dump_edges(module, cfg_template, consts, path, workers=1, timeout=timeout)
        raise Infra("TLC failed on %s: %s\n%s" % (module, tlc_errors(out), out[-1500:]))
    return summ

def replay_file(ezdrive, path, nproc=None, env=None):
    """Replays a stored edge file with nproc parallel ezdrive processes; returns (cases, fails list)."""
    work = scratch("rpf")
    nproc = nproc or NCPU
    pipe = "split -n r/%d -u --filter='%s replay --dir %s/d.$FILE > %s/out.$FILE 2> %s/err.$FILE' %s x" % (nproc, ezdrive, work, work, work, path)
    e = dict(os.environ)
    if env: e.update(env)
    r = subprocess.run(["bash", "-c", pipe], cwd=work, stdout=subprocess.PIPE, stderr=subprocess.STDOUT, text=True, env=e)
    fails, cases = [], 0
    digests = {}
    for f in sorted(glob.glob(os.path.join(work, "out.x*"))):
        ok = False
        for line in open(f):
            if not line.strip(): continue
            j = json.loads(line)
            if j.get("summary"): cases += j["cases"]; ok = True
            elif "digest" in j: digests[j["key"]] = (j["digest"], j["len"], j["n"])
            else: fails.append(j)
        if not ok: raise Infra("replay process died (%s): %s" % (f, r.stdout[-500:]))
    shutil.rmtree(work, ignore_errors=True)
    if env and env.get("EZ_EMIT_DIGEST"):
        return cases, fails, digests
    return cases, fails
