// Replaced global allocation functions for the damaged-file runs (C16): records the largest single request and the total
// requested, and refuses (std::bad_alloc) a single request above the budget set by the harness, remembering that it happened.
#include <cstdlib>
#include <new>
#include <cstddef>
size_t g_alloc_budget = static_cast<size_t>(-1);
size_t g_alloc_max = 0;
size_t g_alloc_total = 0;
int g_alloc_over = 0;
static void *alloc(size_t n) {
    if (n > g_alloc_max) g_alloc_max = n;
    g_alloc_total += n;
    if (n > g_alloc_budget) { g_alloc_over = 1; throw std::bad_alloc(); }
    void *p = std::malloc(n ? n : 1);
    if (!p) throw std::bad_alloc();
    return p;
}
void *operator new(size_t n) { return alloc(n); }
void *operator new[](size_t n) { return alloc(n); }
void operator delete(void *p) noexcept { std::free(p); }
void operator delete[](void *p) noexcept { std::free(p); }
void operator delete(void *p, size_t) noexcept { std::free(p); }
void operator delete[](void *p, size_t) noexcept { std::free(p); }
