// Minimal JSON value (integers, strings, arrays, objects, booleans) for the ezc3d
// conformance harness. No floats and no null on purpose: the trace format never uses
// them (see DESIGN.md appendix B).
#ifndef VERIF_JSON_H
#define VERIF_JSON_H
#include <string>
#include <vector>
#include <utility>
#include <stdexcept>
#include <cstdio>
#include <cstdlib>
#include <cstring>

struct J {
    enum T { INT, STR, ARR, OBJ, BOOL } t;
    long long i;
    std::string s;
    std::vector<J> a;
    std::vector<std::pair<std::string, J> > o;
    J() : t(INT), i(0) {}
    J(long long v) : t(INT), i(v) {}
    J(int v) : t(INT), i(v) {}
    J(size_t v) : t(INT), i(static_cast<long long>(v)) {}
    J(const std::string &v) : t(STR), i(0), s(v) {}
    J(const char *v) : t(STR), i(0), s(v) {}
    static J arr() { J j; j.t = ARR; return j; }
    static J obj() { J j; j.t = OBJ; return j; }
    static J boolean(bool b) { J j; j.t = BOOL; j.i = b; return j; }
    J &push(const J &v) { a.push_back(v); return *this; }
    J &set(const std::string &k, const J &v) {
        for (size_t n = 0; n < o.size(); ++n) if (o[n].first == k) { o[n].second = v; return *this; }
        o.push_back(std::make_pair(k, v)); return *this;
    }
    bool has(const std::string &k) const {
        for (size_t n = 0; n < o.size(); ++n) if (o[n].first == k) return true;
        return false;
    }
    const J &at(const std::string &k) const {
        for (size_t n = 0; n < o.size(); ++n) if (o[n].first == k) return o[n].second;
        throw std::runtime_error("json: missing key " + k);
    }
    const J &at(size_t n) const { if (n >= a.size()) throw std::runtime_error("json: index"); return a[n]; }
    long long geti(const std::string &k, long long d) const { return has(k) ? at(k).i : d; }
    std::string gets(const std::string &k, const std::string &d) const { return has(k) ? at(k).s : d; }
    size_t size() const { return t == ARR ? a.size() : o.size(); }

    void dump(std::string &out) const {
        char buf[32];
        switch (t) {
        case INT: snprintf(buf, sizeof buf, "%lld", i); out += buf; break;
        case BOOL: out += i ? "true" : "false"; break;
        case STR:
            out += '"';
            for (size_t n = 0; n < s.size(); ++n) {
                unsigned char c = static_cast<unsigned char>(s[n]);
                if (c == '"' || c == '\\') { out += '\\'; out += static_cast<char>(c); }
                else if (c < 0x20 || c >= 0x7f) { snprintf(buf, sizeof buf, "\\u%04x", c); out += buf; }
                else out += static_cast<char>(c);
            }
            out += '"';
            break;
        case ARR:
            out += '[';
            for (size_t n = 0; n < a.size(); ++n) { if (n) out += ','; a[n].dump(out); }
            out += ']';
            break;
        case OBJ:
            out += '{';
            for (size_t n = 0; n < o.size(); ++n) {
                if (n) out += ',';
                J(o[n].first).dump(out); out += ':'; o[n].second.dump(out);
            }
            out += '}';
            break;
        }
    }
    std::string str() const { std::string r; dump(r); return r; }
};

struct JParser {
    const char *p, *e;
    JParser(const char *b, size_t n) : p(b), e(b + n) {}
    void ws() { while (p < e && (*p == ' ' || *p == '\t' || *p == '\n' || *p == '\r')) ++p; }
    J parse() {
        ws();
        if (p >= e) throw std::runtime_error("json: eof");
        if (*p == '{') {
            J j = J::obj(); ++p; ws();
            if (p < e && *p == '}') { ++p; return j; }
            for (;;) {
                ws(); J k = parse(); ws();
                if (p >= e || *p != ':') throw std::runtime_error("json: ':'");
                ++p; J v = parse(); j.o.push_back(std::make_pair(k.s, v)); ws();
                if (p < e && *p == ',') { ++p; continue; }
                if (p < e && *p == '}') { ++p; return j; }
                throw std::runtime_error("json: '}'");
            }
        }
        if (*p == '[') {
            J j = J::arr(); ++p; ws();
            if (p < e && *p == ']') { ++p; return j; }
            for (;;) {
                j.a.push_back(parse()); ws();
                if (p < e && *p == ',') { ++p; continue; }
                if (p < e && *p == ']') { ++p; return j; }
                throw std::runtime_error("json: ']'");
            }
        }
        if (*p == '"') {
            J j(""); ++p;
            while (p < e && *p != '"') {
                if (*p == '\\' && p + 1 < e) {
                    ++p;
                    switch (*p) {
                    case 'n': j.s += '\n'; break; case 't': j.s += '\t'; break;
                    case 'r': j.s += '\r'; break; case 'b': j.s += '\b'; break; case 'f': j.s += '\f'; break;
                    case 'u': { char h[5] = {0,0,0,0,0}; if (p + 4 < e) memcpy(h, p + 1, 4);
                                j.s += static_cast<char>(strtol(h, 0, 16)); p += 4; break; }
                    default: j.s += *p;
                    }
                    ++p;
                } else j.s += *p++;
            }
            if (p >= e) throw std::runtime_error("json: string");
            ++p; return j;
        }
        if (!strncmp(p, "true", 4) && e - p >= 4) { p += 4; return J::boolean(true); }
        if (!strncmp(p, "false", 5) && e - p >= 5) { p += 5; return J::boolean(false); }
        char *q; long long v = strtoll(p, &q, 10);
        if (q == p) throw std::runtime_error(std::string("json: unexpected '") + *p + "'");
        p = q; return J(v);
    }
};
inline J jparse(const std::string &s) { JParser ps(s.data(), s.size()); return ps.parse(); }

// structural diff; appends at most `max` differences as {"path","exp","act"}
inline void jdiff(const J &e, const J &a, const std::string &path, std::vector<J> &out, size_t max) {
    if (out.size() >= max) return;
    if (e.t != a.t) { out.push_back(J::obj().set("path", path).set("exp", e).set("act", a)); return; }
    switch (e.t) {
    case J::INT: case J::BOOL: if (e.i != a.i) out.push_back(J::obj().set("path", path).set("exp", e).set("act", a)); break;
    case J::STR: if (e.s != a.s) out.push_back(J::obj().set("path", path).set("exp", e).set("act", a)); break;
    case J::ARR:
        if (e.a.size() != a.a.size()) {
            out.push_back(J::obj().set("path", path + ".#").set("exp", J(e.a.size())).set("act", J(a.a.size())));
        }
        for (size_t n = 0; n < e.a.size() && n < a.a.size(); ++n) {
            char b[24]; snprintf(b, sizeof b, "[%zu]", n);
            jdiff(e.a[n], a.a[n], path + b, out, max);
        }
        break;
    case J::OBJ:
        for (size_t n = 0; n < e.o.size(); ++n) {
            if (!a.has(e.o[n].first)) { out.push_back(J::obj().set("path", path + "." + e.o[n].first).set("exp", e.o[n].second).set("act", "<missing>")); continue; }
            jdiff(e.o[n].second, a.at(e.o[n].first), path.empty() ? e.o[n].first : path + "." + e.o[n].first, out, max);
        }
        break;
    }
}
// the same, with the cap applied to each top-level section of an object separately (a difference in one section - say the
// parameters - must not hide the differences of another - say the frames - from the checks that only look at that one)
inline void jdiffSections(const J &e, const J &a, std::vector<J> &out, size_t maxPerSection) {
    if (e.t != J::OBJ || a.t != J::OBJ) { jdiff(e, a, "", out, maxPerSection); return; }
    for (size_t n = 0; n < e.o.size(); ++n) {
        std::vector<J> d;
        if (!a.has(e.o[n].first)) d.push_back(J::obj().set("path", e.o[n].first).set("exp", e.o[n].second).set("act", "<missing>"));
        else jdiff(e.o[n].second, a.at(e.o[n].first), e.o[n].first, d, maxPerSection);
        for (size_t i = 0; i < d.size(); ++i) out.push_back(d[i]);
    }
}
#endif
