// ezdrive — conformance driver for melund/ezc3d.
//   ezdrive run    [--dir D] [--nopost]   : stdin = one JSON op per line, stdout = one JSON event per line
//   ezdrive replay [--dir D]              : stdin = TLC edge lines {"id","path":[ops],"op":op,"out":cls,"post":state}
//                                           each executed on fresh objects and compared with the specification's state
// The ops are the action alphabet of spec/EzApi.tla / EzIO.tla; events are the lines EzTrace.tla consumes.
#include "proj.h"
#include <iostream>
#include <sstream>
#include <fstream>
#include <map>
#include <memory>
#include <unistd.h>
#include <sys/stat.h>
#include <sys/resource.h>
#include <sys/wait.h>
#include <sys/time.h>
#include <signal.h>
#include <fcntl.h>
#include <cerrno>

using namespace ezc3d;
typedef DataNS::Frame Frame;
typedef DataNS::Points3dNS::Points Points;
typedef DataNS::Points3dNS::Point Point;
typedef DataNS::AnalogsNS::Analogs Analogs;
typedef DataNS::AnalogsNS::SubFrame SubFrame;
typedef DataNS::AnalogsNS::Channel Channel;
typedef ParametersNS::GroupNS::Parameter Parameter;
typedef ParametersNS::GroupNS::Group Group;

static thread_local std::string g_dir = ".";      // per thread: concurrent replays use their own directories
static std::string g_dir_main = ".";
static bool g_nopost = false;
static int g_nthreads = 4, g_rounds = 50;
static unsigned g_seed = 1;

// most-derived first, as binding/ezc3d.i does
static std::string classify() {
    try { throw; }
    catch (const std::invalid_argument &) { return "invalid_argument"; }
    catch (const std::out_of_range &) { return "out_of_range"; }
    catch (const std::length_error &) { return "length_error"; }
    catch (const std::range_error &) { return "range_error"; }
    catch (const std::ios_base::failure &) { return "ios_failure"; }
    catch (const std::bad_alloc &) { return "bad_alloc"; }
    catch (const std::runtime_error &) { return "runtime_error"; }
    catch (const std::logic_error &) { return "logic_error"; }
    catch (const std::exception &) { return "other_std"; }
    catch (...) { return "non_std"; }
}

static size_t idxOf(const J &j) {
    if (j.t == J::STR) {
        if (j.s == "2^32") return static_cast<size_t>(4294967296ULL);
        if (j.s == "2^64-1") return SIZE_MAX;
        return static_cast<size_t>(strtoull(j.s.c_str(), 0, 10));
    }
    if (j.i == -2) return static_cast<size_t>(4294967296ULL);   // token for 2^32 (TLC integers are 32 bit)
    if (j.i < 0) return SIZE_MAX;                               // -1: token for 2^64-1 (and "append" for frame())
    return static_cast<size_t>(j.i);
}

static Point buildPoint(const J &p, bool ctor) {
    std::string name = verif::uncodes(p.at("n"));
    if (ctor) {
        Point pt(name);
        const J &v = p.at("v");
        pt.x(verif::unf32(v.at(0))); pt.y(verif::unf32(v.at(1))); pt.z(verif::unf32(v.at(2))); pt.residual(verif::unf32(v.at(3)));
        return pt;
    }
    Point pt;
    pt.name(name);
    const J &v = p.at("v");
    pt.x(verif::unf32(v.at(0))); pt.y(verif::unf32(v.at(1))); pt.z(verif::unf32(v.at(2))); pt.residual(verif::unf32(v.at(3)));
    return pt;
}
static Channel buildChannel(const J &c, bool ctor) {
    std::string name = verif::uncodes(c.at("n"));
    if (ctor) { Channel ch(name); ch.data(verif::unf32(c.at("v"))); return ch; }
    Channel ch; ch.name(name); ch.data(verif::unf32(c.at("v"))); return ch;
}
static void fillFrame(Frame &fr, const J &f) {
    bool ctor = f.geti("ctor", 0) != 0;
    Points pts;
    const J &p = f.at("p");
    for (size_t i = 0; i < p.a.size(); ++i) pts.point(buildPoint(p.a[i], ctor));
    Analogs an;
    const J &a = f.at("a");
    for (size_t s = 0; s < a.a.size(); ++s) {
        SubFrame sf;
        for (size_t i = 0; i < a.a[s].a.size(); ++i) sf.channel(buildChannel(a.a[s].a[i], ctor));
        an.subframe(sf);
    }
    fr.add(pts, an);
}

// applies one {"t","v","dim"} assignment to a Parameter object (the caller-side typed setters)
static void applySet(Parameter &p, const J &s) {
    int t = static_cast<int>(s.at("t").i);
    std::vector<size_t> dim;
    if (s.has("dim")) for (size_t i = 0; i < s.at("dim").a.size(); ++i) dim.push_back(static_cast<size_t>(s.at("dim").a[i].i));
    const J &v = s.at("v");
    bool scalar = s.geti("scalar", 0) != 0;
    if (t == 2) {
        if (scalar) { p.set(static_cast<int>(v.at(0).i)); return; }
        std::vector<int> d; for (size_t i = 0; i < v.a.size(); ++i) d.push_back(static_cast<int>(v.a[i].i));
        p.set(d, dim);
    } else if (t == 4) {
        if (scalar) { p.set(verif::unf32(v.at(0))); return; }
        std::vector<float> d; for (size_t i = 0; i < v.a.size(); ++i) d.push_back(verif::unf32(v.a[i]));
        p.set(d, dim);
    } else if (t == -1) {
        if (scalar) { p.set(verif::uncodes(v.at(0))); return; }
        std::vector<std::string> d; for (size_t i = 0; i < v.a.size(); ++i) d.push_back(verif::uncodes(v.a[i]));
        p.set(d, dim);
    } else throw std::logic_error("harness: unsupported set type");
}

struct NoObject {};
struct World {
    std::map<long long, std::unique_ptr<c3d> > objs;
    std::map<long long, Frame> callers;
    void reset() { objs.clear(); callers.clear(); }
    c3d &obj(long long k) {
        std::map<long long, std::unique_ptr<c3d> >::iterator it = objs.find(k);
        if (it == objs.end()) throw NoObject();
        return *it->second;
    }
};

static std::string fullpath(const std::string &p) { return (p.size() && p[0] == '/') ? p : g_dir + "/" + p; }

static J fileBytes(const std::string &path, bool &ok) {
    J r = J::arr();
    std::ifstream in(path.c_str(), std::ios::binary);
    ok = in.good();
    if (!ok) return r;
    std::string s((std::istreambuf_iterator<char>(in)), std::istreambuf_iterator<char>());
    r.a.reserve(s.size());
    for (size_t i = 0; i < s.size(); ++i) r.a.push_back(J(static_cast<int>(static_cast<unsigned char>(s[i]))));
    return r;
}
static void putFile(const std::string &path, const J &bytes) {
    std::string s; s.reserve(bytes.a.size());
    for (size_t i = 0; i < bytes.a.size(); ++i) s += static_cast<char>(static_cast<unsigned char>(bytes.a[i].i));
    std::ofstream out(path.c_str(), std::ios::binary | std::ios::trunc);
    out.write(s.data(), static_cast<std::streamsize>(s.size()));
}
static unsigned fnv(const std::string &s) {
    unsigned h = 2166136261u;
    for (size_t i = 0; i < s.size(); ++i) { h ^= static_cast<unsigned char>(s[i]); h *= 16777619u; }
    return h & 0x7fffffffu;
}

// read-only look-ups (C11). Returns the value looked up; throws what the library throws.
static J doGet(c3d &c, const J &op) {
    const std::string q = op.at("q").s;
    const ezc3d::DataNS::Data &D = c.data();
    const ezc3d::ParametersNS::Parameters &P = c.parameters();
    if (q == "nbFrames") return verif::sz(D.nbFrames());
    if (q == "frame") return verif::frame(D.frame(idxOf(op.at("f"))));
    if (q == "nbPoints") return verif::sz(D.frame(idxOf(op.at("f"))).points().nbPoints());
    if (q == "point") return verif::point(D.frame(idxOf(op.at("f"))).points().point(idxOf(op.at("i"))));
    if (q == "pointByName") return verif::point(D.frame(idxOf(op.at("f"))).points().point(verif::uncodes(op.at("name"))));
    if (q == "pointIdx") return verif::sz(D.frame(idxOf(op.at("f"))).points().pointIdx(verif::uncodes(op.at("name"))));
    if (q == "nbSubframes") return verif::sz(D.frame(idxOf(op.at("f"))).analogs().nbSubframes());
    if (q == "subframe") return verif::subframe(D.frame(idxOf(op.at("f"))).analogs().subframe(idxOf(op.at("s"))));
    if (q == "channel") return verif::channel(D.frame(idxOf(op.at("f"))).analogs().subframe(idxOf(op.at("s"))).channel(idxOf(op.at("i"))));
    if (q == "channelByName") return verif::channel(D.frame(idxOf(op.at("f"))).analogs().subframe(idxOf(op.at("s"))).channel(verif::uncodes(op.at("name"))));
    if (q == "channelIdx") return verif::sz(D.frame(idxOf(op.at("f"))).analogs().subframe(idxOf(op.at("s"))).channelIdx(verif::uncodes(op.at("name"))));
    if (q == "nbGroups") return verif::sz(P.nbGroups());
    if (q == "group") return verif::group(P.group(idxOf(op.at("g"))));
    if (q == "groupByName") return verif::group(P.group(verif::uncodes(op.at("name"))));
    if (q == "groupIdx") return verif::sz(P.groupIdx(verif::uncodes(op.at("name"))));
    if (q == "param") return verif::parameter(P.group(idxOf(op.at("g"))).parameter(idxOf(op.at("i"))));
    if (q == "paramByName") return verif::parameter(P.group(idxOf(op.at("g"))).parameter(verif::uncodes(op.at("name"))));
    if (q == "paramIdx") return verif::sz(P.group(idxOf(op.at("g"))).parameterIdx(verif::uncodes(op.at("name"))));
    if (q == "evt") return verif::f32(c.header().eventsTime(idxOf(op.at("i"))));
    if (q == "evd") return verif::sz(c.header().eventsDisplay(idxOf(op.at("i"))));
    if (q == "evl") return verif::codes(c.header().eventsLabel(idxOf(op.at("i"))));
    if (q == "valuesAs") {
        const Parameter &p = P.group(idxOf(op.at("g"))).parameter(idxOf(op.at("i")));
        const std::string as = op.at("as").s;
        J v = J::arr();
        if (as == "byte") { const std::vector<int> &x = p.valuesAsByte(); for (size_t i = 0; i < x.size(); ++i) v.push(verif::i32(x[i])); }
        else if (as == "int") { const std::vector<int> &x = p.valuesAsInt(); for (size_t i = 0; i < x.size(); ++i) v.push(verif::i32(x[i])); }
        else if (as == "float") { const std::vector<float> &x = p.valuesAsFloat(); for (size_t i = 0; i < x.size(); ++i) v.push(verif::f32(x[i])); }
        else { const std::vector<std::string> &x = p.valuesAsString(); for (size_t i = 0; i < x.size(); ++i) v.push(verif::codes(x[i])); }
        return v;
    }
    throw std::logic_error("harness: unknown query " + q);
}

// in-place edit of a frame through the public non-const accessors (caller side or stored frame)
static void mutateFrame(const Frame &fr, const J &op) {
    const std::string k = op.at("kind").s;
    if (k == "ptval") fr.points_nonConst().point_nonConst(idxOf(op.at("i"))).x(verif::unf32(op.at("v")));
    else if (k == "ptres") fr.points_nonConst().point_nonConst(idxOf(op.at("i"))).residual(verif::unf32(op.at("v")));
    else if (k == "ptname") fr.points_nonConst().point_nonConst(idxOf(op.at("i"))).name(verif::uncodes(op.at("name")));
    else if (k == "addpt") fr.points_nonConst().point(buildPoint(op.at("pt"), false));
    else if (k == "chval") fr.analogs_nonConst().subframe_nonConst(idxOf(op.at("s"))).channel_nonConst(idxOf(op.at("i"))).data(verif::unf32(op.at("v")));
    else if (k == "addch") fr.analogs_nonConst().subframe_nonConst(idxOf(op.at("s"))).channel(buildChannel(op.at("ch"), false));
    else if (k == "addsub") { SubFrame sf; const J &s = op.at("sub"); for (size_t i = 0; i < s.a.size(); ++i) sf.channel(buildChannel(s.a[i], false)); fr.analogs_nonConst().subframe(sf); }
    else throw std::logic_error("harness: unknown mutation " + k);
}

// Executes one op. ev receives "out" and op specific results. Returns the object id touched (or -1).
static long long execOp(World &w, const J &op, J &ev) {
    const std::string name = op.at("op").s;
    long long o = op.geti("o", 1);
    std::string out = "ok";
    try {
        if (name == "New") { w.objs[o].reset(new c3d()); }
        else if (name == "Load") { w.objs.erase(o); w.objs[o].reset(new c3d(fullpath(op.at("path").s))); }
        else if (name == "LoadBytes") {      // write the given bytes to a file and construct the object from it
            std::string p = fullpath(op.at("path").s);
            putFile(p, op.at("bytes"));
            std::unique_ptr<c3d> fresh(new c3d(p));
            w.objs[o] = std::move(fresh);
        }
        else if (name == "Destroy") { w.objs.erase(o); o = -1; }
        else if (name == "Reset") { w.reset(); o = -1; }
        else if (name == "Save") {
            std::string p = fullpath(op.at("path").s);
            if (op.geti("unlink", 1)) unlink(p.c_str());
            w.obj(o).write(p);
        }
        else if (name == "Reload") {
            // save, then construct a new object from the file; the old object is kept if loading fails
            std::string p = fullpath(op.at("path").s);
            // the destination already exists and is longer than anything saved here: what is on the disk afterwards must be the object's
            // content only (C14: no byte from unrelated earlier content)
            { std::ofstream junk(p.c_str(), std::ios::binary | std::ios::trunc); std::string filler(65536, static_cast<char>(0xAB)); junk.write(filler.data(), 65536); }
            J before = verif::abs(w.obj(o));
            w.obj(o).write(p);
            J after = verif::abs(w.obj(o));
            bool ok; J b1 = fileBytes(p, ok);
            ev.set("bytes", b1).set("exists", J(ok ? 1 : 0));
            // C14: saving is pure (object unchanged) and repeatable (a second save gives the same bytes)
            { std::vector<J> d; jdiffSections(before, after, d, 2); jdiffSections(after, before, d, 2);
              J pd = J::arr(); for (size_t i = 0; i < d.size(); ++i) pd.push(d[i]); ev.set("purity", pd); }
            { std::string p2 = p + ".again"; unlink(p2.c_str()); w.obj(o).write(p2); bool ok2; /* second save: to a path that does not exist yet */ J b2 = fileBytes(p2, ok2);
              size_t first = 0; while (first < b1.a.size() && first < b2.a.size() && b1.a[first].i == b2.a[first].i) ++first;
              ev.set("repeat", J((b1.a.size() == b2.a.size() && first == b1.a.size()) ? -1 : static_cast<long long>(first))); unlink(p2.c_str()); }
            std::unique_ptr<c3d> fresh(new c3d(p));
            // C04: saving the object that was just loaded reproduces the file it was loaded from (generation n+1 = generation n);
            // only meaningful when the saved object itself came from a file - the caller knows, the harness just measures
            { std::string p3 = p + ".next"; unlink(p3.c_str()); fresh->write(p3); bool ok3; J b3 = fileBytes(p3, ok3);
              size_t first = 0; while (first < b1.a.size() && first < b3.a.size() && b1.a[first].i == b3.a[first].i) ++first;
              ev.set("resave", J((b1.a.size() == b3.a.size() && first == b1.a.size()) ? -1 : static_cast<long long>(first))); unlink(p3.c_str()); }
            w.objs[o] = std::move(fresh);
        }
        else if (name == "SetParam") {
            const J &pj = op.at("p");
            Parameter p(verif::uncodes(pj.at("n")), verif::uncodes(pj.at("d")));
            J souts = J::arr();
            const J &sets = pj.at("sets");
            if (op.has("donor")) {
                // a byte-typed Parameter cannot be built with the setters: it is taken from an object loaded from the donor file
                std::string dp = fullpath("donor.c3d");
                putFile(dp, op.at("donor"));
                c3d donor(dp);
                p = donor.parameters().group("DONOR").parameter(0);
                for (size_t i = 0; i < sets.a.size(); ++i) souts.push(J("ok"));
                unlink(dp.c_str());
            } else {
                for (size_t i = 0; i < sets.a.size(); ++i) {
                    std::string so = "ok";
                    try { applySet(p, sets.a[i]); } catch (...) { so = classify(); }
                    souts.push(J(so));
                }
                if (pj.geti("l", 0)) p.lock();
            }
            ev.set("sets", souts);
            w.obj(o).parameter(verif::uncodes(op.at("g")), p);
        }
        else if (name == "LockGroup") w.obj(o).lockGroup(verif::uncodes(op.at("g")));
        else if (name == "UnlockGroup") w.obj(o).unlockGroup(verif::uncodes(op.at("g")));
        else if (name == "AddFrame") {
            size_t idx = idxOf(op.at("idx"));
            if (op.has("c")) w.obj(o).frame(w.callers[op.at("c").i], idx);
            else { Frame fr; fillFrame(fr, op.at("frame")); w.obj(o).frame(fr, idx); }
        }
        else if (name == "AddFrameAlias") {     // the argument is a reference to one of the object's own frames
            c3d &c = w.obj(o);
            c.frame(c.data().frame(idxOf(op.at("src"))), idxOf(op.at("idx")));
        }
        else if (name == "SetParamAlias") {     // the argument is a reference to one of the object's own parameters
            c3d &c = w.obj(o);
            c.parameter(verif::uncodes(op.at("g")), c.parameters().group(idxOf(op.at("sg"))).parameter(idxOf(op.at("sp"))));
        }
        else if (name == "DeclPoint") w.obj(o).point(verif::uncodes(op.at("n")));
        else if (name == "DeclAnalog") w.obj(o).analog(verif::uncodes(op.at("n")));
        else if (name == "AddPointCols" || name == "AddAnalogCols") {
            std::vector<Frame> frames;
            const J &fs = op.at("frames");
            frames.resize(fs.a.size());
            for (size_t i = 0; i < fs.a.size(); ++i) fillFrame(frames[i], fs.a[i]);
            if (name == "AddPointCols") w.obj(o).point(frames); else w.obj(o).analog(frames);
        }
        else if (name == "CallerNew") { Frame fr; fillFrame(fr, op.at("frame")); w.callers[op.at("c").i] = fr; o = -1; }
        else if (name == "CallerMutate") { mutateFrame(w.callers[op.at("c").i], op); o = op.geti("o", -1); }
        else if (name == "CallerGet") { ev.set("res", verif::frame(w.callers[op.at("c").i])); o = -1; }
        else if (name == "EditStored") mutateFrame(w.obj(o).data().frame(idxOf(op.at("f"))), op);
        else if (name == "Get") ev.set("res", doGet(w.obj(o), op));
        else if (name == "Print") {
            std::ostringstream oss; std::streambuf *old = std::cout.rdbuf(oss.rdbuf());
            try { w.obj(o).print(); } catch (...) { std::cout.rdbuf(old); throw; }
            std::cout.rdbuf(old);
            ev.set("plen", J(oss.str().size())).set("phash", J(static_cast<long long>(fnv(oss.str()))));
        }
        else if (name == "PutFile") { putFile(fullpath(op.at("path").s), op.at("bytes")); o = -1; }
        else if (name == "GetFile") { bool ok; J b = fileBytes(fullpath(op.at("path").s), ok); ev.set("bytes", b).set("exists", J(ok ? 1 : 0)); o = -1; }
        else throw std::logic_error("harness: unknown op " + name);
    } catch (const NoObject &) {
        out = "no_object";
    } catch (const std::logic_error &e) {
        if (!strncmp(e.what(), "harness:", 8)) { std::cerr << e.what() << std::endl; exit(3); }
        out = classify();
        if (name == "Load") w.objs.erase(o);
    } catch (...) {
        out = classify();
        if (name == "Load") w.objs.erase(o);
    }
    ev.set("out", out);
    if (name == "Save" && op.geti("bytes", 0)) { bool ok; J b = fileBytes(fullpath(op.at("path").s), ok); ev.set("bytes", b).set("exists", J(ok ? 1 : 0)); }
    return o;
}

// C15: one save per fault, each in a forked child so that resource limits and privileges die with it.
// kinds: none | fsize (RLIMIT_FSIZE = k, SIGXFSZ ignored) | missing_dir | is_dir | dev_full | readonly (as uid 65534)
static void faultOne(World &w, long long o, const std::string &kind, long long k, const std::string &refPath, const J &ref, const std::string &label) {
    std::string path = g_dir + "/fault.c3d";
    if (kind == "missing_dir") path = g_dir + "/no/such/dir/fault.c3d";
    else if (kind == "is_dir") path = g_dir;
    else if (kind == "dev_full") path = "/dev/full";
    else if (kind == "readonly") { path = g_dir + "/readonly.c3d"; unlink(path.c_str()); int fd = open(path.c_str(), O_CREAT | O_WRONLY, 0444); if (fd >= 0) close(fd); chmod(path.c_str(), 0444); chmod(g_dir.c_str(), 0755); }
    else unlink(path.c_str());
    fflush(stdout);
    pid_t pid = fork();
    if (pid == 0) {
        signal(SIGXFSZ, SIG_IGN);
        if (kind == "fsize") { struct rlimit rl; rl.rlim_cur = rl.rlim_max = static_cast<rlim_t>(k); setrlimit(RLIMIT_FSIZE, &rl); }
        if (kind == "readonly" && getuid() == 0) { if (setgid(65534) != 0 || setuid(65534) != 0) _exit(40); }
        int code = 0;
        try { w.obj(o).write(path); }
        catch (const std::ios_base::failure &) { code = 10; }
        catch (const std::exception &) { code = 11; }
        catch (...) { code = 12; }
        _exit(code);
    }
    int st = 0; waitpid(pid, &st, 0);
    std::string out = "crash";
    if (WIFEXITED(st)) { int c = WEXITSTATUS(st); out = c == 0 ? "ok" : c == 10 ? "ios_failure" : c == 11 ? "other_std" : c == 12 ? "non_std" : c == 40 ? "skipped" : "crash"; }
    long long disk_len = -1; int prefix_ok = 1;
    if (kind == "none" || kind == "fsize" || kind == "readonly") {
        bool ok; J b = fileBytes(path, ok);
        if (ok) { disk_len = static_cast<long long>(b.a.size());
                  for (size_t i = 0; i < b.a.size(); ++i) if (i >= ref.a.size() || b.a[i].i != ref.a[i].i) { prefix_ok = 0; break; } }
    }
    if (kind == "readonly") { chmod(path.c_str(), 0644); unlink(path.c_str()); }
    J ev = J::obj().set("e", "SaveFault").set("obj", label).set("kind", kind).set("k", J(k)).set("out", out)
                   .set("disk_len", J(disk_len)).set("ref_len", J(ref.a.size())).set("prefix_ok", J(prefix_ok));
    std::string line; ev.dump(line); line += '\n'; fwrite(line.data(), 1, line.size(), stdout);
    (void)refPath;
}
static void faultSweep(World &w, const J &op) {
    long long o = op.geti("o", 1);
    std::string label = op.gets("label", "obj");
    std::string refPath = g_dir + "/ref.c3d";
    unlink(refPath.c_str());
    w.obj(o).write(refPath);
    bool ok; J ref = fileBytes(refPath, ok);
    const J &kinds = op.at("kinds");
    for (size_t i = 0; i < kinds.a.size(); ++i) faultOne(w, o, kinds.a[i].s, -1, refPath, ref, label);
    if (op.has("ks")) {
        const J &ks = op.at("ks");
        if (ks.t == J::STR && ks.s == "all") { for (size_t k = 0; k <= ref.a.size() + 1; ++k) faultOne(w, o, "fsize", static_cast<long long>(k), refPath, ref, label); }
        else for (size_t i = 0; i < ks.a.size(); ++i) {
            long long k = ks.a[i].i; if (k < 0) k += static_cast<long long>(ref.a.size());      // negative: counted from the end
            if (k >= 0) faultOne(w, o, "fsize", k, refPath, ref, label);
        }
    }
}

static int modeRun() {
    World w;
    std::string line;
    long long seq = 0;
    while (std::getline(std::cin, line)) {
        if (line.empty()) continue;
        J op = jparse(line);
        if (op.at("op").s == "FaultSweep") { faultSweep(w, op); continue; }
        J ev = J::obj();
        ev.set("seq", J(++seq)).set("e", op.at("op"));
        long long o = execOp(w, op, ev);
        ev.set("args", op);
        if (o >= 0 && !g_nopost && op.geti("post", 1) && w.objs.count(o)) ev.set("post", verif::abs(*w.objs[o]));
        std::string s; ev.dump(s); s += '\n';
        fwrite(s.data(), 1, s.size(), stdout);
        fflush(stdout);                      // drivers may generate the next call from this event
    }
    fflush(stdout);
    return 0;
}

// Call-granularity scheduler (C18): in "sched" mode a thread may execute its next call only when the global order says so.
#include <thread>
#include <mutex>
#include <condition_variable>
#include <atomic>
struct Sched {
    std::mutex m; std::condition_variable cv;
    std::vector<int> order; size_t pos; bool on;
    Sched() : pos(0), on(false) {}
    void before(int tid) {
        if (!on) return;
        std::unique_lock<std::mutex> lk(m);
        cv.wait(lk, [&] { return pos >= order.size() || order[pos] == tid; });
    }
    void after(int tid) {
        if (!on) return;
        { std::lock_guard<std::mutex> lk(m); if (pos < order.size() && order[pos] == tid) ++pos; }
        cv.notify_all();
    }
};
static Sched g_sched;
static thread_local int t_tid = 0;
static std::mutex g_outm;
static void emitLine(const std::string &s) { std::lock_guard<std::mutex> lk(g_outm); ssize_t wr = write(1, s.data(), s.size()); (void)wr; }

// one replay case; returns true when the real object followed the specification
static bool replayCase(const J &c, long long caseNo, long long &steps) {
    World w;
    w.objs[1].reset(new c3d());
    std::vector<J> diffs;
    const J &path = c.at("path");
    for (size_t i = 0; i < path.a.size(); ++i) {
        J ev = J::obj();
        g_sched.before(t_tid); execOp(w, path.a[i], ev); g_sched.after(t_tid); ++steps;
    }
    const J &op = c.at("op");
    long long o = op.geti("o", 1);
    J pre = w.objs.count(o) ? verif::abs(*w.objs[o]) : J::obj();
    J ev = J::obj();
    g_sched.before(t_tid); execOp(w, op, ev); g_sched.after(t_tid); ++steps;
    J post = w.objs.count(o) ? verif::abs(*w.objs[o]) : J::obj();
    const std::string out = ev.at("out").s;
    if (c.has("out") && out != c.at("out").s)
        diffs.push_back(J::obj().set("k", "out").set("path", "out").set("exp", c.at("out")).set("act", J(out)));
    if (c.has("post")) {
        std::vector<J> d; jdiffSections(c.at("post"), post, d, 6);
        for (size_t i = 0; i < d.size(); ++i) { d[i].set("k", "post"); diffs.push_back(d[i]); }
    }
    const bool isGet = op.at("op").s == "Get";
    if (!isGet) { /* only look-ups have a result */ }
    else if (c.has("res") && ev.has("res")) {
        std::vector<J> d; jdiff(c.at("res"), ev.at("res"), "res", d, 4);
        for (size_t i = 0; i < d.size(); ++i) { d[i].set("k", "res"); diffs.push_back(d[i]); }
    } else if (c.has("res") && out == "ok")
        diffs.push_back(J::obj().set("k", "res").set("path", "res").set("exp", c.at("res")).set("act", "<none>"));
    if (getenv("EZ_EMIT_DIGEST") && ev.has("bytes")) {      // C14: what was written, for comparison between differently perturbed runs
        std::string raw; const J &ab = ev.at("bytes"); raw.reserve(ab.a.size());
        for (size_t i = 0; i < ab.a.size(); ++i) raw += static_cast<char>(ab.a[i].i);
        std::string keysrc; path.dump(keysrc); op.dump(keysrc);
        J dg = J::obj().set("digest", J(static_cast<long long>(fnv(raw)))).set("key", J(static_cast<long long>(fnv(keysrc)))).set("len", J(raw.size())).set("n", J(path.a.size() + 1));
        std::string sline; dg.dump(sline); sline += '\n'; emitLine(sline);
    }
    if (ev.has("purity") && ev.at("purity").a.size())
        diffs.push_back(J::obj().set("k", "purity").set("path", ev.at("purity").a[0].at("path")).set("exp", "object unchanged by save").set("act", ev.at("purity").a[0]));
    if (ev.has("repeat") && ev.at("repeat").i >= 0)
        diffs.push_back(J::obj().set("k", "repeat").set("path", "bytes").set("exp", "second save byte-identical").set("act", ev.at("repeat")));
    if (ev.has("resave") && ev.at("resave").i >= 0)
        diffs.push_back(J::obj().set("k", "resave").set("path", "bytes").set("exp", "saving the loaded object reproduces the file").set("act", ev.at("resave")));
    if (c.has("bytes") && op.at("op").s == "Reload" && c.gets("out", "ok") != "range_error") {
        const J &eb = c.at("bytes");
        if (!ev.has("bytes")) diffs.push_back(J::obj().set("k", "bytes").set("path", "bytes").set("exp", J(eb.a.size())).set("act", "<no file>"));
        else {
            const J &ab = ev.at("bytes");
            size_t n = eb.a.size() < ab.a.size() ? eb.a.size() : ab.a.size(), first = n;
            for (size_t i = 0; i < n; ++i) if (eb.a[i].i != ab.a[i].i) { first = i; break; }
            if (first < n || eb.a.size() != ab.a.size()) {
                J d = J::obj().set("k", "bytes").set("path", "bytes@" + std::to_string(first))
                    .set("exp", first < n ? eb.a[first] : J(eb.a.size())).set("act", first < n ? ab.a[first] : J(ab.a.size()))
                    .set("explen", J(eb.a.size())).set("actlen", J(ab.a.size())).set("actbytes", ab).set("pre", pre);
                diffs.push_back(d);
            }
        }
    }
    if (ev.has("sets") && c.has("sets")) {
        std::vector<J> d; jdiff(c.at("sets"), ev.at("sets"), "sets", d, 4);
        for (size_t i = 0; i < d.size(); ++i) { d[i].set("k", "sets"); diffs.push_back(d[i]); }
    }
    // C10, independent of the specification: a call that threw must leave the object as it was
    if (out != "ok" && op.at("op").s != "Load") {
        std::vector<J> d; jdiffSections(pre, post, d, 3);
        std::vector<J> d2; jdiffSections(post, pre, d2, 3);
        for (size_t i = 0; i < d2.size(); ++i) d.push_back(d2[i]);
        for (size_t i = 0; i < d.size() && i < 12; ++i) { d[i].set("k", "unchanged"); diffs.push_back(d[i]); }
    }
    if (diffs.empty()) return true;
    J r = J::obj().set("id", c.geti("id", caseNo)).set("fail", J(1)).set("actout", J(out)).set("len", J(path.a.size() + 1));
    J da = J::arr(); for (size_t i = 0; i < diffs.size(); ++i) da.push(diffs[i]);
    r.set("diffs", da).set("path", path).set("op", op).set("tid", J(t_tid));
    std::string s; r.dump(s); s += '\n';
    emitLine(s);
    return false;
}

// Every case runs in a forked child: a crash of the library (signal, sanitizer abort) is a result
// of that case ("crash"), not the end of the replay.
static int modeReplay() {
    std::string line;
    long long cases = 0, fails = 0, crashes = 0;
    std::map<std::string, long long> hist;
    while (std::getline(std::cin, line)) {
        if (line.size() > 1 && line[0] == '"' && line[1] == '{') {   // TLC's PrintT quotes the JSON text
            try { line = jparse(line).s; }
            catch (const std::exception &e) {
                std::cerr << "harness: garbled input line (" << e.what() << ") len=" << line.size() << " head=" << line.substr(0, 200)
                          << " tail=" << line.substr(line.size() > 300 ? line.size() - 300 : 0) << std::endl;
                return 3;
            }
        }
        if (line.empty() || line[0] != '{') continue;
        ++cases;
        {   // histogram of (call, expected outcome): which actions and which refusals this run exercised (anti-vacuity evidence)
            size_t a = line.find("\"op\":{");
            size_t b = a == std::string::npos ? a : line.find("\"op\":\"", a + 5);
            size_t c = a == std::string::npos ? a : line.find("\"out\":\"", a);
            if (b != std::string::npos && c != std::string::npos) {
                size_t be = line.find('"', b + 6), ce = line.find('"', c + 7);
                ++hist[line.substr(b + 6, be - b - 6) + "/" + line.substr(c + 7, ce - c - 7)];
            }
        }
        pid_t pid = fork();
        if (pid == 0) {
            alarm(20);
            long long steps = 0;
            bool ok = true;
            try { J c = jparse(line); ok = replayCase(c, cases, steps); }
            catch (const std::exception &e) { std::cerr << "harness error: " << e.what() << std::endl; _exit(3); }
            _exit(ok ? 0 : 1);
        }
        int st = 0;
        waitpid(pid, &st, 0);
        if (WIFEXITED(st) && WEXITSTATUS(st) == 0) continue;
        ++fails;
        if (WIFEXITED(st) && WEXITSTATUS(st) == 1) continue;
        if (WIFEXITED(st) && WEXITSTATUS(st) == 3) { std::cerr << "harness error on case " << cases << std::endl; return 3; }
        ++crashes;
        J c = jparse(line);
        J r = J::obj().set("id", c.geti("id", cases)).set("fail", J(1)).set("len", J(c.at("path").a.size() + 1));
        J d = J::obj().set("k", "crash").set("path", "crash").set("exp", "no crash")
                      .set("act", WIFSIGNALED(st) ? J(std::string("signal ") + std::to_string(WTERMSIG(st))) : J(std::string("exit ") + std::to_string(WEXITSTATUS(st))));
        r.set("diffs", J::arr().push(d)).set("path", c.at("path")).set("op", c.at("op"));
        std::string s; r.dump(s); s += '\n';
        ssize_t wr = write(1, s.data(), s.size()); (void)wr;
    }
    J h = J::obj();
    for (std::map<std::string, long long>::iterator it = hist.begin(); it != hist.end(); ++it) h.set(it->first, J(it->second));
    J r = J::obj().set("summary", J(1)).set("cases", J(cases)).set("fail", J(fails)).set("crashes", J(crashes)).set("hist", h);
    std::string s; r.dump(s); s += '\n';
    ssize_t wr = write(1, s.data(), s.size()); (void)wr;
    return 0;
}

// C18: the same replay cases, but several at a time in one process, each on its own objects and directory.
//  free rounds : g_nthreads threads start together, each replays a different case (seeded choice), no synchronisation
//  sched lines : {"cases":[i,j,..],"order":[tid,...]} - the calls of the listed cases are executed in exactly that order
static int modeThreads() {
    std::vector<J> cases; std::vector<J> scheds;
    std::string line;
    while (std::getline(std::cin, line)) {
        if (line.size() > 1 && line[0] == '"' && line[1] == '{') line = jparse(line).s;
        if (line.empty() || line[0] != '{') continue;
        J c = jparse(line);
        if (c.has("order")) scheds.push_back(c); else cases.push_back(c);
    }
    if (cases.empty()) { std::cerr << "harness: no cases" << std::endl; return 3; }
    long long runs = 0, fails = 0;
    std::atomic<long long> nfail(0);
    unsigned rng = g_seed * 2654435761u + 12345u;
    auto next = [&rng]() { rng = rng * 1664525u + 1013904223u; return rng >> 8; };
    auto runSet = [&](const std::vector<size_t> &pick, bool sched) {
        std::vector<std::thread> th;
        std::atomic<int> ready(0); std::atomic<bool> go(false);
        for (size_t t = 0; t < pick.size(); ++t) {
            th.push_back(std::thread([&, t]() {
                t_tid = static_cast<int>(t) + 1;
                g_dir = g_dir_main + "/t" + std::to_string(t + 1); mkdir(g_dir.c_str(), 0777);
                ++ready; while (!go.load()) std::this_thread::yield();
                long long steps = 0;
                bool ok = replayCase(cases[pick[t]], static_cast<long long>(pick[t]), steps);
                if (!ok) ++nfail;
            }));
        }
        while (ready.load() < static_cast<int>(pick.size())) std::this_thread::yield();
        g_sched.on = sched; go.store(true);
        for (size_t t = 0; t < th.size(); ++t) th[t].join();
        g_sched.on = false;
        runs += static_cast<long long>(pick.size());
    };
    for (size_t k = 0; k < scheds.size(); ++k) {
        std::vector<size_t> pick;
        for (size_t i = 0; i < scheds[k].at("cases").a.size(); ++i) pick.push_back(static_cast<size_t>(scheds[k].at("cases").a[i].i) % cases.size());
        g_sched.order.clear(); g_sched.pos = 0;
        for (size_t i = 0; i < scheds[k].at("order").a.size(); ++i) g_sched.order.push_back(static_cast<int>(scheds[k].at("order").a[i].i));
        runSet(pick, true);
    }
    for (int r = 0; r < g_rounds; ++r) {
        std::vector<size_t> pick;
        for (int t = 0; t < g_nthreads; ++t) pick.push_back(next() % cases.size());
        runSet(pick, false);
    }
    fails = nfail.load();
    J r = J::obj().set("summary", J(1)).set("cases", J(runs)).set("fail", J(fails)).set("scheduled", J(scheds.size())).set("free_rounds", J(g_rounds)).set("threads", J(g_nthreads));
    std::string s; r.dump(s); s += '\n'; emitLine(s);
    return 0;
}

int main(int argc, char **argv) {
    std::string mode = argc > 1 ? argv[1] : "run";
    for (int i = 2; i < argc; ++i) {
        if (!strcmp(argv[i], "--dir") && i + 1 < argc) { g_dir = argv[++i]; g_dir_main = g_dir; mkdir(g_dir.c_str(), 0777); }
        else if (!strcmp(argv[i], "--threads") && i + 1 < argc) g_nthreads = atoi(argv[++i]);
        else if (!strcmp(argv[i], "--rounds") && i + 1 < argc) g_rounds = atoi(argv[++i]);
        else if (!strcmp(argv[i], "--seed") && i + 1 < argc) g_seed = static_cast<unsigned>(atoll(argv[++i]));
        else if (!strcmp(argv[i], "--nopost")) g_nopost = true;
    }
    std::ios::sync_with_stdio(false);
    if (mode == "run") return modeRun();
    if (mode == "replay") return modeReplay();
    if (mode == "threads") return modeThreads();
    std::cerr << "usage: ezdrive run|replay [--dir D]" << std::endl;
    return 2;
}
