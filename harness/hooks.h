// Guarded recording hooks for melund/ezc3d (compiled only with -DMELUND_EZC3D_VERIF, found through -I/verif/harness).
// One ndjson event per *outermost* public mutating call on every c3d object (point(name) calls point(frames): depth counter),
// written when the call returns or unwinds: object id, per-process sequence number, call name, arguments in the harness'
// op vocabulary, outcome class, Abs(*this) after the call. Off unless the environment variable EZC3D_VERIF_TRACE names a file.
#ifndef VERIF_HOOKS_H
#define VERIF_HOOKS_H
#include "proj.h"
#include <cstdio>
#include <cstdlib>
#include <map>
#include <exception>

namespace verif {

struct HookState {
    FILE *f; long long seq; std::map<const void *, long long> ids; long long next;
    HookState() : f(0), seq(0), next(0) {
        const char *p = getenv("EZC3D_VERIF_TRACE");
        if (p && *p) f = fopen(p, "a");
    }
    long long idOf(const void *o) { std::map<const void *, long long>::iterator it = ids.find(o); if (it != ids.end()) return it->second; ids[o] = ++next; return next; }
    void forget(const void *o) { ids.erase(o); }
};
inline HookState &hookState() { static HookState s; return s; }
// nesting depth of public calls, per thread; with tracing off nothing shared is ever written (objects may be used from several threads)
inline int &hookDepth() { static thread_local int d = 0; return d; }

// the Parameter handed to c3d::parameter, as one typed set that rebuilds it
inline J paramArg(const ezc3d::ParametersNS::GroupNS::Parameter &p) {
    J sets = J::arr();
    std::vector<size_t> d(p.dimension());
    J dim = J::arr(), v = J::arr();
    int t = static_cast<int>(p.type());
    if (t == -1) { for (size_t i = 1; i < d.size(); ++i) dim.push(sz(d[i])); const std::vector<std::string> &x = p.valuesAsString(); for (size_t i = 0; i < x.size(); ++i) v.push(codes(x[i])); }
    else if (t == 2) { for (size_t i = 0; i < d.size(); ++i) dim.push(sz(d[i])); const std::vector<int> &x = p.valuesAsInt(); for (size_t i = 0; i < x.size(); ++i) v.push(i32(x[i])); }
    else if (t == 4) { for (size_t i = 0; i < d.size(); ++i) dim.push(sz(d[i])); const std::vector<float> &x = p.valuesAsFloat(); for (size_t i = 0; i < x.size(); ++i) v.push(f32(x[i])); }
    if (t == -1 || t == 2 || t == 4) sets.push(J::obj().set("t", J(t)).set("v", v).set("dim", dim).set("scalar", J(0)));
    return J::obj().set("n", codes(p.name())).set("d", codes(p.description())).set("l", J(p.isLocked() ? 1 : 0)).set("sets", sets);
}
inline J framesArg(const std::vector<ezc3d::DataNS::Frame> &fs) { J a = J::arr(); for (size_t i = 0; i < fs.size(); ++i) a.push(frame(fs[i])); return a; }

class Scope {
    const ezc3d::c3d *self; J args; bool outer; int exceptionsAtEntry;
public:
    Scope(const ezc3d::c3d *s, const J &a) : self(s), args(a), exceptionsAtEntry(0) {
        HookState &h = hookState();
        if (!h.f) { outer = false; return; }
        outer = hookDepth() == 0;
        ++hookDepth();
#if __cplusplus >= 201703L
        exceptionsAtEntry = std::uncaught_exceptions();
#endif
    }
    ~Scope() {
        HookState &h = hookState();
        if (!h.f) return;
        --hookDepth();
        if (!outer) return;
        bool threw;
#if __cplusplus >= 201703L
        threw = std::uncaught_exceptions() > exceptionsAtEntry;
#else
        threw = std::uncaught_exception();
#endif
        J ev = J::obj().set("o", J(h.idOf(self))).set("seq", J(++h.seq)).set("e", args.at("op")).set("args", args)
                       .set("out", threw ? "threw" : "ok");
        try { ev.set("post", abs(*self)); } catch (...) {}
        std::string s; ev.dump(s); s += '\n';
        fwrite(s.data(), 1, s.size(), h.f); fflush(h.f);
    }
};
// constructors / destructor are single events without a scope
inline void emitSimple(const ezc3d::c3d *self, const char *what, const std::string &path) {
    HookState &h = hookState();
    if (!h.f || hookDepth() != 0) return;
    J args = J::obj().set("op", what);
    if (!path.empty()) args.set("path", path);
    J ev = J::obj().set("o", J(h.idOf(self))).set("seq", J(++h.seq)).set("e", what).set("args", args).set("out", "ok");
    if (std::string(what) != "Destroy") { try { ev.set("post", abs(*self)); } catch (...) {} } else h.forget(self);
    std::string s; ev.dump(s); s += '\n';
    fwrite(s.data(), 1, s.size(), h.f); fflush(h.f);
}

} // namespace verif

#define VERIF_SCOPE(argsExpr) verif::Scope verif_scope_(this, verif::hookState().f ? (argsExpr) : J())
#define VERIF_EVENT(what, path) verif::emitSimple(this, what, path)
#endif
