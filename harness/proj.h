// Abs : ezc3d::c3d -> abstract state (JSON), through public const accessors only.
// The one definition of "observable state" used by every driver and by the guarded hooks.
// Shape (DESIGN.md appendix B):
//  {"hdr":{...},"prm":{...},"grp":[{"n","d","l","p":[{"n","d","l","t","dim","v"}]}],
//   "frm":[{"p":[{"n","v":[x,y,z,r]}],"a":[[{"n","v"}]]}]}
// floats are 4-byte arrays, strings are arrays of byte codes, size_t is saturated to int32.
#ifndef VERIF_PROJ_H
#define VERIF_PROJ_H
#include "ezc3d.h"
#include "Header.h"
#include "Parameters.h"
#include "Data.h"
#include "json.h"
#include <cstring>
#include <cstdint>

namespace verif {

inline J codes(const std::string &s) {
    J r = J::arr();
    for (size_t i = 0; i < s.size(); ++i) r.push(J(static_cast<int>(static_cast<unsigned char>(s[i]))));
    return r;
}
inline std::string uncodes(const J &j) {
    std::string s;
    for (size_t i = 0; i < j.a.size(); ++i) s += static_cast<char>(static_cast<unsigned char>(j.a[i].i));
    return s;
}
inline J f32(float v) {
    unsigned char b[4]; memcpy(b, &v, 4);
    J r = J::arr();
    for (int i = 0; i < 4; ++i) r.push(J(static_cast<int>(b[i])));
    return r;
}
inline float unf32(const J &j) {
    unsigned char b[4] = {0, 0, 0, 0};
    for (size_t i = 0; i < 4 && i < j.a.size(); ++i) b[i] = static_cast<unsigned char>(j.a[i].i);
    float v; memcpy(&v, b, 4); return v;
}
// size_t -> int32 range: SIZE_MAX ("-1") and other wrapped values keep their signed reading,
// everything outside +-(2^31-1) saturates (TLC integers are 32 bit).
inline J sz(size_t v) {
    long long x = static_cast<long long>(v);
    if (x > 2147483647LL) x = 2147483647LL;
    if (x < -2147483647LL) x = -2147483647LL;
    return J(x);
}
inline J i32(int v) { return J(static_cast<long long>(v)); }

inline J point(const ezc3d::DataNS::Points3dNS::Point &p) {
    J v = J::arr();
    v.push(f32(p.x())).push(f32(p.y())).push(f32(p.z())).push(f32(p.residual()));
    return J::obj().set("n", codes(p.name())).set("v", v);
}
inline J channel(const ezc3d::DataNS::AnalogsNS::Channel &c) {
    return J::obj().set("n", codes(c.name())).set("v", f32(c.data()));
}
inline J subframe(const ezc3d::DataNS::AnalogsNS::SubFrame &s) {
    J r = J::arr();
    for (size_t i = 0; i < s.nbChannels(); ++i) r.push(channel(s.channel(i)));
    return r;
}
inline J frame(const ezc3d::DataNS::Frame &f) {
    J p = J::arr(), a = J::arr();
    for (size_t i = 0; i < f.points().nbPoints(); ++i) p.push(point(f.points().point(i)));
    for (size_t s = 0; s < f.analogs().nbSubframes(); ++s) a.push(subframe(f.analogs().subframe(s)));
    return J::obj().set("p", p).set("a", a);
}
inline J parameter(const ezc3d::ParametersNS::GroupNS::Parameter &p) {
    J dim = J::arr(), v = J::arr();
    std::vector<size_t> d(p.dimension());
    for (size_t i = 0; i < d.size(); ++i) dim.push(sz(d[i]));
    switch (p.type()) {
    case ezc3d::DATA_TYPE::CHAR: { const std::vector<std::string> &x = p.valuesAsString(); for (size_t i = 0; i < x.size(); ++i) v.push(codes(x[i])); break; }
    case ezc3d::DATA_TYPE::BYTE: { const std::vector<int> &x = p.valuesAsByte(); for (size_t i = 0; i < x.size(); ++i) v.push(i32(x[i])); break; }
    case ezc3d::DATA_TYPE::INT: { const std::vector<int> &x = p.valuesAsInt(); for (size_t i = 0; i < x.size(); ++i) v.push(i32(x[i])); break; }
    case ezc3d::DATA_TYPE::FLOAT: { const std::vector<float> &x = p.valuesAsFloat(); for (size_t i = 0; i < x.size(); ++i) v.push(f32(x[i])); break; }
    default: break;
    }
    return J::obj().set("n", codes(p.name())).set("d", codes(p.description())).set("l", J(p.isLocked() ? 1 : 0))
        .set("t", i32(static_cast<int>(p.type()))).set("dim", dim).set("v", v);
}
inline J group(const ezc3d::ParametersNS::GroupNS::Group &g) {
    J ps = J::arr();
    for (size_t i = 0; i < g.nbParameters(); ++i) ps.push(parameter(g.parameter(i)));
    return J::obj().set("n", codes(g.name())).set("d", codes(g.description())).set("l", J(g.isLocked() ? 1 : 0)).set("p", ps);
}
inline J header(const ezc3d::Header &h) {
    J evt = J::arr(), evd = J::arr(), evl = J::arr();
    for (size_t i = 0; i < h.eventsTime().size(); ++i) evt.push(f32(h.eventsTime()[i]));
    std::vector<size_t> d(h.eventsDisplay());
    for (size_t i = 0; i < d.size(); ++i) evd.push(sz(d[i]));
    for (size_t i = 0; i < h.eventsLabel().size(); ++i) evl.push(codes(h.eventsLabel()[i]));
    return J::obj()
        .set("zeros", sz(h.nbOfZerosBeforeHeader())).set("paddr", sz(h.parametersAddress())).set("chk", sz(h.checksum()))
        .set("npts", sz(h.nb3dPoints())).set("meas", sz(h.nbAnalogsMeasurement())).set("nanalogs", sz(h.nbAnalogs()))
        .set("first", sz(h.firstFrame())).set("last", sz(h.lastFrame())).set("nframes", sz(h.nbFrames()))
        .set("gap", sz(h.nbMaxInterpGap())).set("scale", i32(h.scaleFactor())).set("dstart", sz(h.dataStart()))
        .set("perframe", sz(h.nbAnalogByFrame())).set("rate", f32(h.frameRate()))
        .set("eb1", i32(h.emptyBlock1())).set("eb2", i32(h.emptyBlock2())).set("eb3", i32(h.emptyBlock3())).set("eb4", i32(h.emptyBlock4()))
        .set("klp", sz(h.keyLabelPresent())).set("fbkl", sz(h.firstBlockKeyLabel())).set("fcp", sz(h.fourCharPresent()))
        .set("nev", sz(h.nbEvents())).set("evt", evt).set("evd", evd).set("evl", evl);
}
inline J abs(const ezc3d::c3d &c) {
    const ezc3d::ParametersNS::Parameters &P = c.parameters();
    J prm = J::obj().set("start", sz(P.parametersStart())).set("chk", sz(P.checksum()))
                    .set("nblk", sz(P.nbParamBlock())).set("proc", sz(P.processorType()));
    J grp = J::arr(), frm = J::arr();
    for (size_t i = 0; i < P.nbGroups(); ++i) grp.push(group(P.group(i)));
    for (size_t i = 0; i < c.data().nbFrames(); ++i) frm.push(frame(c.data().frame(i)));
    return J::obj().set("hdr", header(c.header())).set("prm", prm).set("grp", grp).set("frm", frm);
}

} // namespace verif
#endif
