// ezcorrupt — loads damaged files (C16). stdin: mutation descriptors emitted by TLC from spec/EzCorrupt.tla
//   {"seed":k,"kind":"trunc","n":N}   {"seed":k,"kind":"set","pos":[..],"val":[..]}
// Each load runs in a forked child with an allocation budget proportional to the file size, a wall-clock limit and
// (in the sanitizer build) ASan/UBSan. One event per mutation on stdout:
//   {"e":"LoadMut","seed":k,"m":<descriptor>,"out":"loaded|refused|signal|non_std|alloc|timeout","size":n,"maxalloc":a,"ms":t}
// "timeout" = the load used more processor time than 20 s + 10 us per byte of the file
#include "newdelete.cpp"
#include "proj.h"
#include <iostream>
#include <fstream>
#include <map>
#include <unistd.h>
#include <sys/wait.h>
#include <sys/time.h>
#include <sys/stat.h>
#include <signal.h>

extern size_t g_alloc_budget, g_alloc_max, g_alloc_total;
extern int g_alloc_over;

static std::string readAll(const std::string &p) {
    std::ifstream in(p.c_str(), std::ios::binary);
    return std::string((std::istreambuf_iterator<char>(in)), std::istreambuf_iterator<char>());
}
static double nowMs() { struct timeval tv; gettimeofday(&tv, 0); return tv.tv_sec * 1000.0 + tv.tv_usec / 1000.0; }

int main(int argc, char **argv) {
    std::string seedDir = ".", dir = ".";
    for (int i = 1; i < argc; ++i) {
        if (!strcmp(argv[i], "--seeds") && i + 1 < argc) seedDir = argv[++i];
        else if (!strcmp(argv[i], "--dir") && i + 1 < argc) { dir = argv[++i]; mkdir(dir.c_str(), 0777); }
    }
    std::map<long long, std::string> seeds;
    std::string line;
    long long n = 0;
    while (std::getline(std::cin, line)) {
        if (line.size() > 1 && line[0] == '"' && line[1] == '{') line = jparse(line).s;
        if (line.empty() || line[0] != '{') continue;
        J m = jparse(line);
        long long k = m.at("seed").i;
        if (!seeds.count(k)) seeds[k] = readAll(seedDir + "/seed." + std::to_string(k));
        std::string b = seeds[k];
        if (m.at("kind").s == "trunc") b.resize(static_cast<size_t>(m.at("n").i));
        else {
            const J &pos = m.at("pos"), &val = m.at("val");
            for (size_t i = 0; i < pos.a.size(); ++i)
                if (static_cast<size_t>(pos.a[i].i) < b.size()) b[static_cast<size_t>(pos.a[i].i)] = static_cast<char>(val.a[i].i);
        }
        std::string path = dir + "/mut.c3d";
        { std::ofstream out(path.c_str(), std::ios::binary | std::ios::trunc); out.write(b.data(), static_cast<std::streamsize>(b.size())); }
        ++n;
        double t0 = nowMs();
        fflush(stdout);
        pid_t pid = fork();
        if (pid == 0) {
            // the time limit is on the processor time of the load itself (linear in the file size, generous constant): a wall-clock limit, or
            // one that includes this harness walking the result, reports a slow machine or a slow harness instead of a hang of the loader
            unsigned limit = 20 + static_cast<unsigned>(b.size() / 100000);
            struct itimerval tv; memset(&tv, 0, sizeof tv); tv.it_value.tv_sec = limit;
            setitimer(ITIMER_PROF, &tv, 0);                                   // SIGPROF ends the child: "timeout"
            g_alloc_max = 0; g_alloc_total = 0; g_alloc_over = 0;
            g_alloc_budget = 64 * b.size() + (static_cast<size_t>(16) << 20);     // 64 x file size + 16 MiB
            std::string out = "loaded";
            try {
                ezc3d::c3d c(path);
                memset(&tv, 0, sizeof tv); setitimer(ITIMER_PROF, &tv, 0);    // loaded: the clock stops here
                alarm(600);                                                   // (backstop for the walk below, far beyond anything it needs)
                // walk the object through the public accessors: everything but the frames always, every frame when there are few,
                // else the first and last hundred (a damaged count may announce tens of thousands of frames the file does not hold)
                const ezc3d::ParametersNS::Parameters &P = c.parameters();
                J h = verif::header(c.header()); (void)h;
                for (size_t i = 0; i < P.nbGroups(); ++i) { J g = verif::group(P.group(i)); (void)g; }
                size_t nf = c.data().nbFrames();
                for (size_t i = 0; i < nf; ++i) {
                    if (nf > 400 && i >= 100 && i + 100 < nf) continue;
                    J f = verif::frame(c.data().frame(i)); (void)f;
                }
            } catch (const std::exception &) { out = "refused"; }
            catch (...) { out = "non_std"; }
            size_t mx = g_alloc_max; int over = g_alloc_over;
            g_alloc_budget = static_cast<size_t>(-1);
            if (over) out = "alloc";
            J ev = J::obj().set("e", "LoadMut").set("seed", J(k)).set("m", m).set("out", out).set("size", J(b.size()))
                           .set("maxalloc", J(static_cast<long long>(mx > 2000000000u ? 2000000000u : mx))).set("ms", J(static_cast<long long>(nowMs() - t0)));
            std::string s; ev.dump(s); s += '\n';
            ssize_t w = write(1, s.data(), s.size()); (void)w;
            _exit(0);
        }
        int st = 0; waitpid(pid, &st, 0);
        if (WIFEXITED(st) && WEXITSTATUS(st) == 0) continue;
        std::string out = "signal";
        long long sig = WIFSIGNALED(st) ? WTERMSIG(st) : -WEXITSTATUS(st);
        if (WIFSIGNALED(st) && (WTERMSIG(st) == SIGPROF || WTERMSIG(st) == SIGALRM)) out = "timeout";
        J ev = J::obj().set("e", "LoadMut").set("seed", J(k)).set("m", m).set("out", out).set("sig", J(sig)).set("size", J(b.size()))
                       .set("maxalloc", J(0)).set("ms", J(static_cast<long long>(nowMs() - t0)));
        std::string s; ev.dump(s); s += '\n';
        ssize_t w = write(1, s.data(), s.size()); (void)w;
    }
    return 0;
}
