CONSTANTS
  PNames = {1, 2}
  ANames = {11}
  PRates = {0, 100}
  ARates = {0, 100, 200}
  MaxFrames = 2
  MaxPts = 2
  MaxCh = 1
  Fixed = TRUE
INIT Init
NEXT Next
VIEW View
INVARIANT AgreeFrames
INVARIANT AgreeCounts
INVARIANT AgreePerFrame
INVARIANT AgreeLabels
CHECK_DEADLOCK FALSE
