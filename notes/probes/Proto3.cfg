CONSTANTS
  PNames = {1, 2, 3}
  ANames = {11, 12}
  PRates = {0, 100}
  ARates = {0, 100, 200}
  MaxFrames = 3
  MaxPts = 3
  MaxCh = 2
  Fixed = TRUE
INIT Init
NEXT Next
VIEW View
INVARIANT AgreeFrames
INVARIANT AgreeCounts
INVARIANT AgreePerFrame
INVARIANT AgreeLabels
CHECK_DEADLOCK FALSE
