#include "ezc3d.h"
#include <cstdio>
int main(int argc,char**argv){ for(int i=1;i<argc;i++){ try{ ezc3d::c3d a(argv[i]); printf("%s: frames=%zu npts=%zu x00=%g a=%g labels=%zu\n", argv[i], a.data().nbFrames(), a.header().nb3dPoints(), a.data().frame(0).points().point(0).x(), a.data().frame(1).analogs().subframe(1).channel(0).data(), a.parameters().group("POINT").parameter("LABELS").valuesAsString().size()); }catch(std::exception&e){ printf("%s: threw %s\n", argv[i], e.what()); } } }
