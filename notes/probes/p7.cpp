#include "ezc3d.h"
#include <cstdio>
using namespace ezc3d;
typedef ParametersNS::GroupNS::Parameter Param;
static DataNS::Frame mk(std::vector<std::pair<std::string,float>> pts){ DataNS::Frame f; DataNS::Points3dNS::Points P; for(auto&p:pts){ DataNS::Points3dNS::Point pt; pt.name(p.first); pt.x(p.second); P.point(pt);} f.add(P); return f; }
int main(int argc,char**argv){ int t=atoi(argv[1]);
 try{
  if(t==1){ c3d c; Param r("RATE"); r.set(std::vector<float>{100}); c.parameter("POINT",r); c.point("abc "); printf("label='%s'\n", c.parameters().group("POINT").parameter("LABELS").valuesAsString()[0].c_str()); try{ c.frame(mk({{"abc",1}})); printf("frame accepted\n"); }catch(std::exception&e){ printf("frame refused: %s\n", e.what()); } }
  if(t==2){ c3d c; Param r("RATE"); r.set(std::vector<float>{100}); c.parameter("POINT",r); c.point("p1"); c.point("p2"); c.frame(mk({{"p2",2},{"p1",1}})); printf("stored: byname p1.x=%g pos0=%s\n", c.data().frame(0).points().point("p1").x(), c.data().frame(0).points().point(0).name().c_str()); c.write("/tmp/exp/perm.c3d"); c3d q("/tmp/exp/perm.c3d"); printf("reloaded: p1.x=%g p2.x=%g\n", q.data().frame(0).points().point("p1").x(), q.data().frame(0).points().point("p2").x()); }
  if(t==3){ c3d c; Param r("RATE"); r.set(std::vector<float>{100}); c.parameter("POINT",r); Param a("RATE"); a.set(std::vector<float>{100}); c.parameter("ANALOG",a); c.point("p1"); c.frame(mk({{"p1",1}})); try{ c.analog("a1"); printf("analog accepted; USED=%d\n", c.parameters().group("ANALOG").parameter("USED").valuesAsInt()[0]); }catch(std::invalid_argument&e){ printf("invalid_argument: %s\n", e.what()); }catch(std::out_of_range&e){ printf("out_of_range: %s\n", e.what()); } }
  if(t==4){ c3d c; DataNS::Frame f; c.frame(f); printf("empty frame: data=%zu FRAMES=%d hdr.nbFrames=%zu\n", c.data().nbFrames(), c.parameters().group("POINT").parameter("FRAMES").valuesAsInt()[0], c.header().nbFrames()); }
 }catch(std::exception&e){ printf("threw %s\n", e.what()); }
}
