#include "ezc3d.h"
#include <cstdio>
int main(int argc,char**argv){ try{ ezc3d::c3d a(argv[1]); auto&P=a.parameters().group("G").parameter("TXT"); printf("gen1 dims="); for(auto d:P.dimension()) printf("%zu,",d); printf(" val='%s'\n", P.valuesAsString()[0].c_str()); a.write("/tmp/exp/str2.c3d"); ezc3d::c3d b("/tmp/exp/str2.c3d"); auto&Q=b.parameters().group("G").parameter("TXT"); printf("gen2 dims="); for(auto d:Q.dimension()) printf("%zu,",d); printf(" val='%s'\n", Q.valuesAsString()[0].c_str()); }catch(std::exception&e){ printf("threw %s\n", e.what()); } }
