#include "ezc3d.h"
#include <cstdio>
using namespace ezc3d;
typedef ParametersNS::GroupNS::Parameter Param;
static void dumpfile(const char* path){
  FILE* f=fopen(path,"rb"); std::vector<unsigned char> b; int c; while((c=fgetc(f))!=EOF) b.push_back(c); fclose(f);
  printf("size=%zu\n", b.size());
  printf("hdr: paramblk=%d magic=%02x npts=%d nmeas=%d first=%d last=%d gap=%d scale=%02x%02x%02x%02x datastart=%d perframe=%d\n", b[0],b[1],b[2]|b[3]<<8,b[4]|b[5]<<8,b[6]|b[7]<<8,b[8]|b[9]<<8,b[10]|b[11]<<8,b[12],b[13],b[14],b[15],b[16]|b[17]<<8,b[18]|b[19]<<8);
  printf("event labels bytes: "); for(int i=198*2;i<198*2+72;i++) printf("%02x",b[i]); printf("\n");
  printf("param hdr: %d %02x nblocks=%d proc=%d\n", b[512],b[513],b[514],b[515]);
  // find DATA_START
  for(size_t i=512;i+10<b.size();++i) if(!memcmp(&b[i],"DATA_START",10)){ printf("DATA_START at %zu: next=%d type=%d ndim=%d val=%d %d\n", i, b[i+10]|b[i+11]<<8,(signed char)b[i+12],b[i+13],b[i+14],b[i+15]); }
}
int main(){
  { c3d c; c.write("/tmp/exp/empty.c3d"); dumpfile("/tmp/exp/empty.c3d"); }
  { c3d c; Param pr("RATE"); pr.set(std::vector<float>{100}); c.parameter("POINT",pr);
    Param ar("RATE"); ar.set(std::vector<float>{200}); c.parameter("ANALOG",ar);
    c.point("p1"); c.point("p2"); c.analog("a1");
    DataNS::Frame f; DataNS::Points3dNS::Points pts;
    for(int i=0;i<2;i++){ DataNS::Points3dNS::Point pt; pt.name(i?"p2":"p1"); pt.x(1+i); pt.y(2); pt.z(3); pt.residual(7.5f); pts.point(pt);} 
    DataNS::AnalogsNS::Analogs an; for(int s=0;s<2;s++){ DataNS::AnalogsNS::SubFrame sf; DataNS::AnalogsNS::Channel ch; ch.name("a1"); ch.data(10+s); sf.channel(ch); an.subframe(sf);} 
    f.add(pts,an);
    c.frame(f); c.frame(f);
    printf("residual stored: %g\n", c.data().frame(0).points().point(0).residual());
    // aliasing
    f.points_nonConst().point_nonConst(0).x(99);
    printf("after caller mutation: stored f0.x=%g f1.x=%g\n", c.data().frame(0).points().point(0).x(), c.data().frame(1).points().point(0).x());
    c.point("p3");
    printf("after point(p3): f0 npts=%zu f1 npts=%zu USED=%d\n", c.data().frame(0).points().nbPoints(), c.data().frame(1).points().nbPoints(), c.parameters().group("POINT").parameter("USED").valuesAsInt()[0]);
    c.write("/tmp/exp/two.c3d"); dumpfile("/tmp/exp/two.c3d");
    try { c3d r("/tmp/exp/two.c3d"); printf("reload ok frames=%zu npts=%zu\n", r.data().nbFrames(), r.header().nb3dPoints()); } catch(std::exception&e){ printf("reload threw %s\n", e.what()); }
  }
  { c3d c; try { c.write("/nonexistent_dir/x.c3d"); printf("write to bad path returned normally\n"); } catch(std::exception&e){ printf("write threw %s\n", e.what()); } 
    try { c.write("/dev/full"); printf("write to /dev/full returned normally\n"); } catch(std::exception&e){ printf("write threw %s\n", e.what()); } }
  return 0;
}
