---- MODULE Feas ----
EXTENDS Naturals, Integers, Sequences, TLC, Json, IOUtils
T == ndJsonDeserialize(IOEnv.TRACE)
B == T[1].bytes
U16(b, i) == b[i] + 256 * b[i+1]
S8(x) == IF x > 127 THEN x - 256 ELSE x
\* walk the parameter records: pos is 1-based index of name-length byte
RECURSIVE Walk(_, _, _)
Walk(b, pos, acc) ==
  LET n == S8(b[pos]) IN
  IF n = 0 THEN acc
  ELSE LET len == IF n < 0 THEN -n ELSE n
           id == S8(b[pos+1])
           name == SubSeq(b, pos+2, pos+1+len)
           offpos == pos+2+len
           off == U16(b, offpos)
       IN IF off = 0 THEN Append(acc, <<id, name>>)
          ELSE Walk(b, offpos + off, Append(acc, <<id, name>>))
VARIABLE x
Init == x = 0
Next == x < 1 /\ x' = x + 1 /\ PrintT(<<"len", Len(B), "npts", U16(B,3), "recs", Len(Walk(B, 512 + 5, <<>>))>>) /\ PrintT(Walk(B, 517, <<>>)[1])
Spec == Init /\ [][Next]_x
====
