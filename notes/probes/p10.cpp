#include "ezc3d.h"
#include <cstdio>
using namespace ezc3d;
typedef ParametersNS::GroupNS::Parameter Param;
int main(){ c3d c; Param p("TXT"); p.set(std::string("hello   ")); c.parameter("G",p); c.write("/tmp/exp/str.c3d"); }
