#include <fstream>
#include <cstdio>
#include <csignal>
#include <sys/resource.h>
int main(int argc,char**argv){
  long k=atol(argv[1]);
  signal(SIGXFSZ, SIG_IGN);
  struct rlimit rl={ (rlim_t)k,(rlim_t)k}; setrlimit(RLIMIT_FSIZE,&rl);
  std::fstream f("/tmp/exp/lim.bin", std::ios::out|std::ios::binary);
  printf("open=%d ", (int)f.is_open());
  char buf[100]; for(int i=0;i<100;i++) buf[i]=i;
  for(int i=0;i<10;i++) f.write(buf,100);
  std::streampos pos=f.tellg(); f.seekg(10); f.write(buf,2); f.seekg(pos);
  for(int i=0;i<10;i++) f.write(buf,100);
  bool failBefore=f.fail(); f.close(); printf("failBeforeClose=%d failAfterClose=%d bad=%d\n",(int)failBefore,(int)f.fail(),(int)f.bad());
}
