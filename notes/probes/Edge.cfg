INIT Init
NEXT Next
ACTION_CONSTRAINT Dump
VIEW View
CHECK_DEADLOCK FALSE
