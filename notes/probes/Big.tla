---- MODULE Big ----
EXTENDS Naturals, Integers, Sequences, TLC, Json, IOUtils
T == ndJsonDeserialize(IOEnv.TRACE)
B == T[1].bytes
N == (Len(B) - 1024) \div 4
Floats == [i \in 1..N |-> <<B[1024+4*i-3], B[1024+4*i-2], B[1024+4*i-1], B[1024+4*i]>>]
Sum == LET F == Floats IN Len(F)
VARIABLE x
Init == x = 0
Next == x < 1 /\ x' = x + 1 /\ PrintT(<<"len", Len(B), "floats", Sum, Floats[N]>>)
Spec == Init /\ [][Next]_x
====
