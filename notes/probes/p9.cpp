#include "ezc3d.h"
#include <cstdio>
using namespace ezc3d;
typedef ParametersNS::GroupNS::Parameter Param;
int main(int argc,char**argv){ int t=atoi(argv[1]);
 try{
  if(t==1){ c3d c; Param p("USED"); p.set(std::vector<float>{2.0f}); try{ c.parameter("POINT",p); printf("accepted\n"); }catch(std::exception&e){ printf("threw: %s; POINT:USED type now=%d\n", e.what(), (int)c.parameters().group("POINT").parameter("USED").type()); } try{ c.point("x"); printf("point ok\n"); }catch(std::exception&e){ printf("later point() threw: %s\n", e.what()); } }
  if(t==2){ c3d c; Param p; p.name("X"); try{ c.parameter("NEWGRP",p); }catch(std::exception&e){ printf("untyped refused: %s; groups=%zu\n", e.what(), c.parameters().nbGroups()); } }
 }catch(std::exception&e){ printf("threw %s\n", e.what()); }
}
