#include "ezc3d.h"
#include <cstdio>
using namespace ezc3d;
typedef ParametersNS::GroupNS::Parameter Param;
int main(int argc,char**argv){
  int t=atoi(argv[1]);
  try{
  if(t==1){ c3d c; std::vector<DataNS::Frame> fr; c.analog(fr); printf("analog(empty) returned\n"); }
  if(t==2){ c3d c; Param p("USED"); p.set(std::vector<int>{}); c.parameter("POINT",p); printf("POINT:USED empty accepted; hdr npts=%zu\n", c.header().nb3dPoints()); }
  if(t==3){ c3d c; c.point("p1"); printf("after point(p1): hdr.nbFrames=%zu FRAMES=%d data=%zu first=%zu last=%zu\n", c.header().nbFrames(), c.parameters().group("POINT").parameter("FRAMES").valuesAsInt()[0], c.data().nbFrames(), c.header().firstFrame(), c.header().lastFrame());
     c.point("p2"); printf("after point(p2): hdr.nbFrames=%zu last=%zu\n", c.header().nbFrames(), c.header().lastFrame()); }
  if(t==4){ c3d c; Param p("TXT"); p.set(std::string("hello")); c.parameter("G",p); Param q("LST"); q.set(std::vector<std::string>{"ab","c"}); c.parameter("G",q);
     printf("TXT dims:"); for(auto d:c.parameters().group("G").parameter("TXT").dimension()) printf(" %zu",d); printf("\n");
     c.write("/tmp/exp/s.c3d"); c3d r("/tmp/exp/s.c3d"); auto& P=r.parameters().group("G").parameter("TXT"); printf("reloaded TXT dims:"); for(auto d:P.dimension()) printf(" %zu",d); printf(" vals=%zu '%s'\n", P.valuesAsString().size(), P.valuesAsString().size()?P.valuesAsString()[0].c_str():"");
     auto& L=r.parameters().group("G").parameter("LST"); printf("LST dims:"); for(auto d:L.dimension()) printf(" %zu",d); for(auto&s:L.valuesAsString()) printf(" '%s'",s.c_str()); printf("\n"); }
  if(t==5){ c3d c; Param p("D"); p.description(std::string(200,'x')); p.set(1); c.parameter("G",p); c.write("/tmp/exp/d.c3d"); c3d r("/tmp/exp/d.c3d"); printf("desc len=%zu\n", r.parameters().group("G").parameter("D").description().size()); }
  if(t==6){ c3d c; Param p("P"); p.set(std::vector<int>{1,2,3,4,5,6},{3,2}); c.parameter("G",p); Param e("E"); e.set(std::vector<int>{},{0,3}); c.parameter("G",e); Param n("N"); n.set(std::vector<int>{-1,-32768,32767,40000}); c.parameter("G",n); c.write("/tmp/exp/m.c3d"); c3d r("/tmp/exp/m.c3d"); auto&P=r.parameters().group("G"); for(size_t i=0;i<P.nbParameters();i++){ printf("%s dims:",P.parameter(i).name().c_str()); for(auto d:P.parameter(i).dimension()) printf(" %zu",d); printf(" vals:"); for(auto v:P.parameter(i).valuesAsInt()) printf(" %d",v); printf("\n"); } }
  if(t==7){ c3d c; Param pr("RATE"); pr.set(std::vector<float>{100}); c.parameter("POINT",pr); c.point("p1"); DataNS::Frame f; DataNS::Points3dNS::Points pts; DataNS::Points3dNS::Point pt; pt.name("p1"); pt.x(1); pts.point(pt); f.add(pts); c.frame(f,2); printf("frames=%zu f0 npts=%zu USED=%d hdr.npts=%zu\n", c.data().nbFrames(), c.data().frame(0).points().nbPoints(), c.parameters().group("POINT").parameter("USED").valuesAsInt()[0], c.header().nb3dPoints()); printf("labels n=%zu\n", c.parameters().group("POINT").parameter("LABELS").valuesAsString().size()); c.write("/tmp/exp/gap.c3d"); c3d r("/tmp/exp/gap.c3d"); printf("reload frames=%zu npts=%zu\n", r.data().nbFrames(), r.header().nb3dPoints()); }
  if(t==8){ DataNS::Points3dNS::Point pt("abc  "); printf("ctor name='%s'\n", pt.name().c_str()); DataNS::AnalogsNS::Channel ch("x  "); printf("ch ctor name='%s'\n", ch.name().c_str()); }
  } catch(std::exception&e){ printf("threw %s\n", e.what()); }
}
