#include "ezc3d.h"
#include <cstdio>
using namespace ezc3d;
static std::string dump(const c3d& c, bool data=true){
  std::ostringstream o;
  const Header& h=c.header();
  o<<"H zeros="<<h.nbOfZerosBeforeHeader()<<" paddr="<<h.parametersAddress()<<" npts="<<h.nb3dPoints()<<" meas="<<h.nbAnalogsMeasurement()<<" first="<<h.firstFrame()<<" last="<<h.lastFrame()<<" gap="<<h.nbMaxInterpGap()<<" scale="<<h.scaleFactor()<<" dstart="<<h.dataStart()<<" perframe="<<h.nbAnalogByFrame()<<" rate="<<h.frameRate()<<" nev="<<h.nbEvents()<<" key="<<h.keyLabelPresent()<<","<<h.firstBlockKeyLabel()<<","<<h.fourCharPresent()<<"\n";
  for(size_t i=0;i<18;i++) if(h.eventsTime(i)!=0||h.eventsLabel(i).size()) o<<"  ev"<<i<<" t="<<h.eventsTime(i)<<" l="<<h.eventsLabel(i)<<"\n";
  const ParametersNS::Parameters& P=c.parameters();
  o<<"P start="<<P.parametersStart()<<" nblk="<<P.nbParamBlock()<<" proc="<<P.processorType()<<" ngroups="<<P.nbGroups()<<"\n";
  for(size_t g=0;g<P.nbGroups();g++){ const auto& G=P.group(g); o<<" G"<<g<<" '"<<G.name()<<"' lock="<<G.isLocked()<<" desc='"<<G.description()<<"' n="<<G.nbParameters()<<"\n";
    for(size_t p=0;p<G.nbParameters();p++){ const auto& Q=G.parameter(p); o<<"   '"<<Q.name()<<"' t="<<Q.type()<<" lock="<<Q.isLocked()<<" dim=["; for(auto d:Q.dimension()) o<<d<<","; o<<"] desc='"<<Q.description()<<"' v=";
      if(Q.type()==CHAR) for(auto&s:Q.valuesAsString()) o<<"'"<<s<<"',"; else if(Q.type()==FLOAT) for(auto v:Q.valuesAsFloat()) o<<v<<","; else if(Q.type()==INT) for(auto v:Q.valuesAsInt()) o<<v<<","; else if(Q.type()==BYTE) for(auto v:Q.valuesAsByte()) o<<v<<","; o<<"\n"; } }
  if(data){ unsigned long long hsh=1469598103934665603ULL; size_t n=0;
   for(size_t f=0;f<c.data().nbFrames();f++){ const auto&F=c.data().frame(f); for(size_t i=0;i<F.points().nbPoints();i++){ auto d=F.points().point(i).data(); for(int k=0;k<4;k++){ unsigned u; memcpy(&u,&d[k],4); hsh=(hsh^u)*1099511628211ULL; n++; } for(char ch:F.points().point(i).name()) hsh=(hsh^ch)*1099511628211ULL; }
     for(size_t s=0;s<F.analogs().nbSubframes();s++) for(size_t k=0;k<F.analogs().subframe(s).nbChannels();k++){ float v=F.analogs().subframe(s).channel(k).data(); unsigned u; memcpy(&u,&v,4); hsh=(hsh^u)*1099511628211ULL; n++; } }
   o<<"D frames="<<c.data().nbFrames()<<" nvals="<<n<<" hash="<<hsh<<"\n"; }
  return o.str();
}
int main(int argc,char**argv){
  for(int i=1;i<argc;i++){
    try{
    c3d a(argv[i]); std::string d1=dump(a);
    a.write("/tmp/exp/gen2.c3d");
    std::string d1b=dump(a);
    c3d b("/tmp/exp/gen2.c3d"); std::string d2=dump(b);
    b.write("/tmp/exp/gen3.c3d");
    c3d cc("/tmp/exp/gen3.c3d"); std::string d3=dump(cc); cc.write("/tmp/exp/gen4.c3d");
    printf("==== %s: save-pure=%d gen1==gen2:%d gen2==gen3:%d\n", argv[i], d1==d1b, d1==d2, d2==d3);
    if(d1!=d2){ FILE*f=fopen("/tmp/exp/d1.txt","w"); fputs(d1.c_str(),f); fclose(f); f=fopen("/tmp/exp/d2.txt","w"); fputs(d2.c_str(),f); fclose(f); system("diff /tmp/exp/d1.txt /tmp/exp/d2.txt | head -40"); }
    system("cmp /tmp/exp/gen3.c3d /tmp/exp/gen4.c3d && echo bytes-gen3==gen4");
    } catch(std::exception& e){ printf("==== %s threw %s\n", argv[i], e.what()); }
  }
}
