---- MODULE Proto ----
(* Throw-away feasibility probe: as-is transcription of frame()/point()/analog()/
   updateParameters()/updateHeader() of src/ezc3d.cpp on an abstract object. *)
EXTENDS Naturals, Integers, Sequences, FiniteSets, TLC
CONSTANTS PNames, ANames, PRates, ARates, MaxFrames, MaxPts, MaxCh, Fixed

VARIABLES h, P, A, F, lastOp, lastOut
vars == <<h, P, A, F, lastOp, lastOut>>

EmptyFrame == [pts |-> <<>>, subs |-> <<>>, tag |-> 0]
Names(s) == {s[i] : i \in 1..Len(s)}
HdrAnalogs(hh) == IF hh.perframe = 0 THEN 0 ELSE hh.meas \div hh.perframe
HdrFrames(hh) == IF hh.npts = 0 /\ HdrAnalogs(hh) = 0 THEN 0 ELSE hh.last - hh.first + 1
SetPerFrame(hh, n) == [hh EXCEPT !.perframe = n, !.meas = HdrAnalogs(hh) * n]
SetAnalogs(hh, n) == [hh EXCEPT !.meas = n * hh.perframe]

FilledF(f) == Len(f.pts) > 0 \/ Len(f.subs) > 0
RefIdx(FF) == IF Fixed THEN (IF \E i \in 1..Len(FF) : FilledF(FF[i]) THEN CHOOSE i \in 1..Len(FF) : FilledF(FF[i]) /\ \A j \in 1..(i-1) : ~FilledF(FF[j]) ELSE (IF Len(FF) > 0 THEN 1 ELSE 0)) ELSE (IF Len(FF) > 0 THEN 1 ELSE 0)
HasData(FF) == IF Fixed THEN \E i \in 1..Len(FF) : FilledF(FF[i]) ELSE Len(FF) > 0
UpdateHeader(hh, PP, AA, FF) ==
  LET h1 == IF (~Fixed) /\ PP.frames # HdrFrames(hh) THEN [hh EXCEPT !.first = 0, !.last = PP.frames - 1] ELSE hh
      h2 == IF PP.rate # h1.rate THEN [h1 EXCEPT !.rate = PP.rate] ELSE h1
      h3 == IF PP.used # h2.npts THEN [h2 EXCEPT !.npts = PP.used] ELSE h2
      h4 == IF HasData(FF) /\ Len(FF[RefIdx(FF)].subs) # 0
              THEN (IF Len(FF[RefIdx(FF)].subs) # h3.perframe THEN SetPerFrame(h3, Len(FF[RefIdx(FF)].subs)) ELSE h3)
              ELSE IF PP.rate = 0
                     THEN (IF h3.perframe # 1 THEN SetPerFrame(h3, 1) ELSE h3)
                     ELSE (IF (AA.rate \div PP.rate) # h3.perframe THEN SetPerFrame(h3, AA.rate \div PP.rate) ELSE h3)
      h5 == IF AA.used # HdrAnalogs(h4) THEN SetAnalogs(h4, AA.used) ELSE h4
      h6 == IF Fixed /\ PP.frames # HdrFrames(h5) THEN [h5 EXCEPT !.first = 0, !.last = PP.frames - 1] ELSE h5
  IN h6

Max(a, b) == IF a > b THEN a ELSE b
UpdateParameters(hh, PP, AA, FF, newP, newA) ==
  LET P1 == IF Len(FF) # PP.frames THEN [PP EXCEPT !.frames = Len(FF)] ELSE PP
      nP == IF HasData(FF) THEN Len(FF[RefIdx(FF)].pts) ELSE Len(P1.labels) + Len(newP)
      P2 == IF nP # P1.used
              THEN [P1 EXCEPT !.used = nP,
                              !.labels = IF ~HasData(FF) THEN P1.labels \o newP ELSE FF[RefIdx(FF)].pts,
                              !.ndesc = nP, !.nunits = nP]
              ELSE P1
      nA == IF HasData(FF) THEN (IF Len(FF[RefIdx(FF)].subs) > 0 THEN Len(FF[RefIdx(FF)].subs[1]) ELSE 0)
                            ELSE Len(AA.labels) + Len(newA)
      A2 == IF nA # AA.used
              THEN [AA EXCEPT !.used = nA,
                              !.labels = IF ~HasData(FF) THEN AA.labels \o newA ELSE (IF nA = 0 THEN <<>> ELSE FF[RefIdx(FF)].subs[1]),
                              !.ndesc = nA, !.nscale = Max(AA.nscale, nA)]
              ELSE AA
  IN [h |-> UpdateHeader(hh, P2, A2, FF), P |-> P2, A |-> A2]

Init ==
  /\ h = [npts |-> 0, meas |-> 0, first |-> 0, last |-> 0, perframe |-> 0, rate |-> 0]
  /\ P = [used |-> 0, frames |-> 0, rate |-> 0, labels |-> <<>>, ndesc |-> 0, nunits |-> 0]
  /\ A = [used |-> 0, rate |-> 0, labels |-> <<>>, ndesc |-> 0, nscale |-> 0]
  /\ F = <<>>
  /\ lastOp = <<"New">> /\ lastOut = "ok"

Apply(r, FF, op) == /\ h' = r.h /\ P' = r.P /\ A' = r.A /\ F' = FF /\ lastOp' = op /\ lastOut' = "ok"
Refuse(op, cls) == /\ UNCHANGED <<h, P, A, F>> /\ lastOp' = op /\ lastOut' = cls

SetPointRate(r) == /\ LET PP == [P EXCEPT !.rate = r] IN Apply([h |-> UpdateHeader(h, PP, A, F), P |-> PP, A |-> A], F, <<"SetPointRate", r>>)
SetAnalogRate(r) == /\ LET AA == [A EXCEPT !.rate = r] IN Apply([h |-> UpdateHeader(h, P, AA, F), P |-> P, A |-> AA], F, <<"SetAnalogRate", r>>)

\* frame kinds: the conforming frame, and documented deviations
ConfPts == IF P.labels # <<>> THEN P.labels ELSE <<>>
ConfSubs == IF A.used > 0 /\ h.perframe > 0 THEN [s \in 1..h.perframe |-> A.labels] ELSE <<>>
FrameOf(kind, tag) ==
  CASE kind = "conf"     -> [pts |-> ConfPts, subs |-> ConfSubs, tag |-> tag]
    [] kind = "lesspt"   -> [pts |-> IF ConfPts = <<>> THEN <<>> ELSE Tail(ConfPts), subs |-> ConfSubs, tag |-> tag]
    [] kind = "morept"   -> [pts |-> Append(ConfPts, 99), subs |-> ConfSubs, tag |-> tag]
    [] kind = "rename"   -> [pts |-> IF ConfPts = <<>> THEN <<>> ELSE <<98>> \o Tail(ConfPts), subs |-> ConfSubs, tag |-> tag]
    [] kind = "morech"   -> [pts |-> ConfPts, subs |-> [s \in 1..Len(ConfSubs) |-> Append(ConfSubs[s], 97)], tag |-> tag]
    [] kind = "empty"    -> [pts |-> <<>>, subs |-> <<>>, tag |-> tag]

FrameOutcome(f) ==
  IF P.used # 0 /\ Len(f.pts) # P.used THEN "runtime_error"
  ELSE IF \E i \in 1..Len(P.labels) : P.labels[i] \notin Names(f.pts) THEN "invalid_argument"
  ELSE IF Len(f.pts) > 0 /\ P.rate = 0 THEN "runtime_error"
  ELSE IF Len(f.subs) > 0 /\ A.rate = 0 THEN "runtime_error"
  ELSE IF Len(f.subs) # 0 /\ ~(A.used = 0 /\ h.perframe = 0) /\ Len(f.subs[1]) # A.used THEN "runtime_error"
  ELSE "ok"

Store(FF, f, idx) ==
  IF idx = -1 THEN Append(FF, f)
  ELSE IF idx < Len(FF) THEN [FF EXCEPT ![idx + 1] = f]
  ELSE [i \in 1..(idx + 1) |-> IF i <= Len(FF) THEN FF[i] ELSE IF i = idx + 1 THEN f ELSE EmptyFrame]

AddFrame(kind, tag, idx) ==
  LET f == FrameOf(kind, tag)  op == <<"AddFrame", kind, tag, idx>>  out == FrameOutcome(f) IN
  /\ (idx = -1 => Len(F) < MaxFrames) /\ idx < MaxFrames
  /\ (kind \in {"morept", "lesspt", "rename"} => P.used # 0)
  /\ (kind = "morech" => (A.used # 0 /\ h.perframe > 0))
  /\ IF out # "ok" THEN Refuse(op, out)
     ELSE LET FF == Store(F, f, idx) IN Apply(UpdateParameters(h, P, A, FF, <<>>, <<>>), FF, op)

DeclPoint(n) ==
  /\ Len(P.labels) < MaxPts /\ \A i \in 1..Len(F) : FilledF(F[i])
  /\ IF Len(F) = 0 THEN Apply(UpdateParameters(h, P, A, F, <<n>>, <<>>), F, <<"DeclPoint", n>>)
     ELSE IF n \in Names(P.labels) THEN Refuse(<<"DeclPoint", n>>, "invalid_argument")
     ELSE LET FF == [i \in 1..Len(F) |-> [F[i] EXCEPT !.pts = Append(@, n)]] IN
          Apply(UpdateParameters(h, P, A, FF, <<>>, <<>>), FF, <<"DeclPoint", n>>)

DeclAnalog(n) ==
  /\ Len(A.labels) < MaxCh /\ \A i \in 1..Len(F) : FilledF(F[i])
  /\ IF Len(F) = 0 THEN Apply(UpdateParameters(h, P, A, F, <<>>, <<n>>), F, <<"DeclAnalog", n>>)
     ELSE IF h.perframe = 0 THEN Refuse(<<"DeclAnalog", n>>, "out_of_range")
     ELSE IF n \in Names(A.labels) THEN Refuse(<<"DeclAnalog", n>>, "invalid_argument")
     ELSE IF \E i \in 1..Len(F) : Len(F[i].subs) < h.perframe THEN Refuse(<<"DeclAnalog", n>>, "out_of_range")
     ELSE LET FF == [i \in 1..Len(F) |-> [F[i] EXCEPT !.subs = [s \in 1..Len(@) |-> IF s <= h.perframe THEN Append(@[s], n) ELSE @[s]]]] IN
          Apply(UpdateParameters(h, P, A, FF, <<>>, <<>>), FF, <<"DeclAnalog", n>>)

Next ==
  \/ \E r \in PRates : SetPointRate(r)
  \/ \E r \in ARates : SetAnalogRate(r)
  \/ \E n \in PNames : DeclPoint(n)
  \/ \E n \in ANames : DeclAnalog(n)
  \/ \E k \in {"conf", "lesspt", "morept", "rename", "morech", "empty"}, t \in 1..2, i \in -1..MaxFrames-1 : AddFrame(k, t, i)

Spec == Init /\ [][Next]_vars
View == <<h, P, A, F>>

Filled(f) == Len(f.pts) > 0 \/ Len(f.subs) > 0
Agreement ==
  /\ h.npts = P.used
  /\ \A i \in 1..Len(F) : Filled(F[i]) => Len(F[i].pts) = h.npts
  /\ HdrFrames(h) = P.frames /\ P.frames = Len(F)
  /\ \A i \in 1..Len(F) : Filled(F[i]) => Len(F[i].subs) = (IF Len(F[i].subs) = 0 THEN 0 ELSE h.perframe)
  /\ h.rate = P.rate
AgreeCounts == h.npts = P.used
AgreeFrames == ((h.npts = 0 /\ HdrAnalogs(h) = 0) \/ HdrFrames(h) = P.frames) /\ P.frames = Len(F)
AgreePerFrame == \A i \in 1..Len(F) : Filled(F[i]) => (Len(F[i].pts) = h.npts /\ (Len(F[i].subs) > 0 => (Len(F[i].subs) = h.perframe /\ HdrAnalogs(h) = A.used /\ \A s \in 1..Len(F[i].subs) : Len(F[i].subs[s]) = A.used)))
AgreeLabels == (Len(P.labels) > 0 => (Len(P.labels) = P.used /\ P.ndesc = P.used)) /\ (Len(A.labels) > 0 => Len(A.labels) = A.used)
====
