---- MODULE Edge ----
EXTENDS Naturals, Sequences, TLC, Json
VARIABLES x, op
Init == x = <<>> /\ op = [n |-> "init", a |-> 0]
Push(v) == Len(x) < 3 /\ x' = Append(x, v) /\ op' = [n |-> "push", a |-> v]
Pop == Len(x) > 0 /\ x' = Tail(x) /\ op' = [n |-> "pop", a |-> 0]
Next == (\E v \in 1..2 : Push(v)) \/ Pop
Dump == PrintT(ToJson([from |-> x, op |-> op', to |-> x', lvl |-> TLCGet("level")]))
View == x
Spec == Init /\ [][Next]_<<x,op>>
====
