------------------------------ MODULE EzLimits ------------------------------
(* C17: content at, just below, just above and far beyond each capacity limit of the C3D   *)
(* format. A case is a set of (limit, value) components; the specification says what a      *)
(* save followed by a load may do: within the limits it must succeed and give back the same  *)
(* content; beyond a limit the save throws, or the file still loads to the same content.     *)
EXTENDS Naturals, Integers, Sequences, TLC, Json, IOUtils

Limit(name) ==
  CASE name = "param_desc" -> 255 [] name = "param_name" -> 127 [] name = "group_name" -> 127
    [] name = "dim_entry" -> 255 [] name = "str_count" -> 255 [] name = "ndims" -> 7
    [] name = "points" -> 255 [] name = "channels" -> 255 [] name = "frames" -> 32767
    [] name = "int_max" -> 32767 [] name = "int_min" -> 32768      \* magnitude of the most negative value
    [] name = "param_blocks" -> 255 [] name = "record_bytes" -> 65535
    [] name = "group_id" -> 127               \* group ids are one signed byte (also for groups that follow unused ids of a loaded file)
    [] name = "section_bytes" -> 130559       \* prologue + records, leaving at least the terminator byte inside 255 blocks
Within(comps) == \A i \in 1..Len(comps) : comps[i].v <= Limit(comps[i].limit)

VARIABLES case, save, load, same
vars == <<case, save, load, same>>
Allowed(c, s, l, eq) ==
  IF Within(c) THEN s = "ok" /\ l = "ok" /\ eq = 1
  ELSE s # "ok" \/ (l = "ok" /\ eq = 1)
Init == case = <<>> /\ save = "ok" /\ load = "ok" /\ same = 1
SaveLoad(c) == \E s \in {"ok", "refused"}, l \in {"ok", "refused", "na"}, eq \in {0, 1} :
                  Allowed(c, s, l, eq) /\ case' = c /\ save' = s /\ load' = l /\ same' = eq
\* C17 as an invariant of every behaviour of SaveLoad
NeverSilentlyDifferent == (save = "ok" /\ ~(load = "ok" /\ same = 1)) => FALSE

(* ---- model instance: every limit at L-1, L, L+1, far beyond, alone ---- *)
Names == {"param_desc", "param_name", "group_name", "dim_entry", "str_count", "ndims", "points", "channels", "frames", "int_max", "int_min", "param_blocks", "record_bytes", "section_bytes", "group_id"}
MCNext == \E n \in Names, d \in {-1, 0, 1, 50} : SaveLoad(<<[limit |-> n, v |-> Limit(n) + d]>>)

=============================================================================
