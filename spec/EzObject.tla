---------------------------- MODULE EzObject ----------------------------
(* The abstract ezc3d::c3d object: header, parameter tree, frames - and the two     *)
(* updaters (src/ezc3d.cpp updateParameters / updateHeader) that keep the three      *)
(* views consistent. Everything here is a pure operator on values; the actions that  *)
(* use them are in EzApi.tla (API) and EzIO.tla (files).                              *)
(*                                                                                    *)
(*   obj == [hdr |-> Header, prm |-> Prologue, grp |-> Seq(Group), frm |-> Seq(Frame)] *)
(*   Group == [n, d, l, p |-> Seq(Param)]      Param == [n, d, l, t, dim, v]           *)
(*   Frame == [p |-> Seq([n, v |-> <<x,y,z,r>>]), a |-> Seq(Seq([n, v]))]              *)
(* names/descriptions/strings are byte-code sequences, floats are 4-byte tuples,       *)
(* l is 0/1, t is the DATA_TYPE code (-1 char, 1 byte, 2 int, 4 float, 10000 none).    *)
EXTENDS C3DBytes

TCHAR == -1   TBYTE == 1   TINT == 2   TFLOAT == 4   TNONE == 10000

(* ---------- parameters ---------- *)
MkParam(n, d) == [n |-> n, d |-> d, l |-> 0, t |-> TNONE, dim |-> <<>>, v |-> <<>>]
MaxLen(strs) == MaxOf({Len(strs[i]) : i \in 1..Len(strs)})
\* Parameter::isDimensionConsistent
DimConsistent(n, dim) ==
  IF n = 0 THEN (dim = <<>> \/ Product(dim) = 0) ELSE n = Product(dim)
\* Parameter::set(vector<int|float>, dimension): empty dimension argument means "one dimension, the size"
ArgDim(vals, dimArg) == IF dimArg = <<>> THEN <<Len(vals)>> ELSE dimArg
SetOutcome(vals, dimArg) == IF DimConsistent(Len(vals), ArgDim(vals, dimArg)) THEN "ok" ELSE "range_error"
SetNum(p, t, vals, dimArg) == [p EXCEPT !.t = t, !.v = vals, !.dim = ArgDim(vals, dimArg)]
\* Parameter::set(vector<string>, dimension): a leading dimension = the longest string is inserted
SetStr(p, vals, dimArg) == [p EXCEPT !.t = TCHAR, !.v = vals, !.dim = <<MaxLen(vals)>> \o ArgDim(vals, dimArg)]
SetInts(p, vals)   == SetNum(p, TINT, vals, <<>>)
SetFloats(p, vals) == SetNum(p, TFLOAT, vals, <<>>)
SetStrs(p, vals)   == SetStr(p, vals, <<>>)
Locked(p) == [p EXCEPT !.l = 1]

(* ---------- the default object: c3d() ---------- *)
MkGroup(n, ps) == [n |-> n, d |-> <<>>, l |-> 0, p |-> ps]
DefaultGroups == <<
  MkGroup(sPOINT, <<
     Locked(SetInts(MkParam(sUSED, <<>>), <<0>>)),
     Locked(SetFloats(MkParam(sSCALE, <<>>), <<FMinusOne>>)),
     Locked(SetFloats(MkParam(sRATE, <<>>), <<FZero>>)),
     Locked(SetInts(MkParam(sDATA_START, <<>>), <<0>>)),
     Locked(SetInts(MkParam(sFRAMES, <<>>), <<0>>)),
     SetStrs(MkParam(sLABELS, <<>>), <<>>),
     SetStrs(MkParam(sDESCRIPTIONS, <<>>), <<>>),
     SetStrs(MkParam(sUNITS, <<>>), <<>>) >>),
  MkGroup(sANALOG, <<
     Locked(SetInts(MkParam(sUSED, <<>>), <<0>>)),
     SetStrs(MkParam(sLABELS, <<>>), <<>>),
     SetStrs(MkParam(sDESCRIPTIONS, <<>>), <<>>),
     SetInts(MkParam(sGEN_SCALE, <<>>), <<1>>),
     SetFloats(MkParam(sSCALE, <<>>), <<>>),
     SetInts(MkParam(sOFFSET, <<>>), <<>>),
     SetStrs(MkParam(sUNITS, <<>>), <<>>),
     Locked(SetFloats(MkParam(sRATE, <<>>), <<FZero>>)),
     SetStrs(MkParam(sFORMAT, <<>>), <<>>),
     SetInts(MkParam(sBITS, <<>>), <<>>) >>),
  MkGroup(sFORCE_PLATFORM, <<
     SetInts(MkParam(sUSED, <<>>), <<0>>),
     SetInts(MkParam(sTYPE, <<>>), <<>>),
     SetInts(MkParam(sZERO, <<>>), <<1, 0>>),
     SetFloats(MkParam(sCORNERS, <<>>), <<>>),
     SetFloats(MkParam(sORIGIN, <<>>), <<>>),
     SetInts(MkParam(sCHANNEL, <<>>), <<>>),
     SetFloats(MkParam(sCAL_MATRIX, <<>>), <<>>) >>) >>

DefaultHeader == [
  zeros |-> 0, paddr |-> 2, chk |-> 80, npts |-> 0, meas |-> 0, first |-> 0, last |-> 0, gap |-> 10,
  scale |-> -1, dstart |-> 1, perframe |-> 0, rate |-> FZero, eb1 |-> 0, eb2 |-> 0, eb3 |-> 0, eb4 |-> 0,
  klp |-> 0, fbkl |-> 0, fcp |-> 12345, nev |-> 0,
  evt |-> [i \in 1..18 |-> FZero], evd |-> [i \in 1..9 |-> 0], evl |-> [i \in 1..18 |-> <<>>] ]
DefaultPrologue == [start |-> 1, chk |-> 80, nblk |-> 0, proc |-> 84]
DefaultObject == [hdr |-> DefaultHeader, prm |-> DefaultPrologue, grp |-> DefaultGroups, frm |-> <<>>]

(* ---------- look-ups (first element with exactly that name; 0 = not found) ---------- *)
GroupIdx(grp, name) == IndexOfFirst(grp, LAMBDA g : g.n = name)
ParamIdx(g, name)   == IndexOfFirst(g.p, LAMBDA q : q.n = name)
HasParam(grp, gn, pn) == GroupIdx(grp, gn) # 0 /\ ParamIdx(grp[GroupIdx(grp, gn)], pn) # 0
GetParam(grp, gn, pn) == LET g == grp[GroupIdx(grp, gn)] IN g.p[ParamIdx(g, pn)]
PutParam(grp, gn, pn, q) == LET gi == GroupIdx(grp, gn) IN [grp EXCEPT ![gi].p[ParamIdx(grp[gi], pn)] = q]
\* valuesAsX()[0] is defined: right type and at least one value
Has1(grp, gn, pn, t) == HasParam(grp, gn, pn) /\ GetParam(grp, gn, pn).t = t /\ Len(GetParam(grp, gn, pn).v) >= 1
HasT(grp, gn, pn, t) == HasParam(grp, gn, pn) /\ GetParam(grp, gn, pn).t = t
Val1(grp, gn, pn) == GetParam(grp, gn, pn).v[1]

(* ---------- header arithmetic (src/Header.cpp:223-247, 289-294) ---------- *)
HdrAnalogs(h) == IF h.perframe = 0 THEN 0 ELSE h.meas \div h.perframe
HdrFrames(h)  == IF h.npts = 0 /\ HdrAnalogs(h) = 0 THEN 0 ELSE h.last - h.first + 1   \* size_t wrap-around read as signed
SetAnalogs(h, n)  == [h EXCEPT !.meas = n * h.perframe]
SetPerFrame(h, n) == [h EXCEPT !.perframe = n, !.meas = HdrAnalogs(h) * n]

(* ---------- frames ---------- *)
EmptyFrame == [p |-> <<>>, a |-> <<>>]
Filled(f) == Len(f.p) > 0 \/ Len(f.a) > 0
PointNames(f) == [i \in 1..Len(f.p) |-> f.p[i].n]
ChannelNames(sf) == [i \in 1..Len(sf) |-> sf[i].n]
SeqToSet(s) == {s[i] : i \in 1..Len(s)}

(* What the updaters need to exist (they index valuesAsX()[0] without a check). Histories that remove
   or retype one of these are outside the modelled alphabet; NoBlindIndex (C13) is stated over this. *)
MandPoint(grp) ==
  /\ Has1(grp, sPOINT, sUSED, TINT) /\ Has1(grp, sPOINT, sFRAMES, TINT) /\ Has1(grp, sPOINT, sRATE, TFLOAT)
  /\ HasT(grp, sPOINT, sLABELS, TCHAR) /\ HasParam(grp, sPOINT, sDESCRIPTIONS) /\ HasParam(grp, sPOINT, sUNITS)
MandAnalog(grp) ==
  /\ Has1(grp, sANALOG, sUSED, TINT) /\ Has1(grp, sANALOG, sRATE, TFLOAT)
  /\ HasT(grp, sANALOG, sLABELS, TCHAR) /\ HasParam(grp, sANALOG, sDESCRIPTIONS)
  /\ HasT(grp, sANALOG, sSCALE, TFLOAT) /\ HasT(grp, sANALOG, sOFFSET, TINT) /\ HasT(grp, sANALOG, sUNITS, TCHAR)
Mand(grp) == MandPoint(grp) /\ MandAnalog(grp)
\* what updateHeader alone needs (it tolerates an ANALOG group without parameters: "Optotrak lazyness")
AnalogGroupEmpty(grp) == GroupIdx(grp, sANALOG) # 0 /\ Len(grp[GroupIdx(grp, sANALOG)].p) = 0
MandHeader(grp) ==
  /\ Has1(grp, sPOINT, sUSED, TINT) /\ Has1(grp, sPOINT, sFRAMES, TINT) /\ Has1(grp, sPOINT, sRATE, TFLOAT)
  /\ GroupIdx(grp, sANALOG) # 0
  /\ (~AnalogGroupEmpty(grp) => Has1(grp, sANALOG, sUSED, TINT) /\ Has1(grp, sANALOG, sRATE, TFLOAT))

\* frames created by extension are empty; the shape is read from the first frame that holds something
RefIdx(frm) == IF \E i \in 1..Len(frm) : Filled(frm[i])
                 THEN CHOOSE i \in 1..Len(frm) : Filled(frm[i]) /\ \A j \in 1..(i - 1) : ~Filled(frm[j]) ELSE 1

HasTV(grp, gn, pn, t) == HasParam(grp, gn, pn) /\ GetParam(grp, gn, pn).t = t
MandHeaderTyped(grp) ==
  /\ HasTV(grp, sPOINT, sUSED, TINT) /\ HasTV(grp, sPOINT, sFRAMES, TINT) /\ HasTV(grp, sPOINT, sRATE, TFLOAT)
  /\ GroupIdx(grp, sANALOG) # 0
  /\ (~AnalogGroupEmpty(grp) => HasTV(grp, sANALOG, sUSED, TINT) /\ HasTV(grp, sANALOG, sRATE, TFLOAT))

(* ---------- updateHeader (src/ezc3d.cpp:405-444): parameters win over the header ---------- *)
\* hasData = FALSE while a file is being loaded (the data section is read after the header is reconciled)
UpdateHeader(h, grp, frm, hasData) ==
  LET pRate == Val1(grp, sPOINT, sRATE)
      used  == Val1(grp, sPOINT, sUSED)
      nfr   == Val1(grp, sPOINT, sFRAMES)
      h1 == IF RateKey(pRate) # RateKey(h.rate) THEN [h EXCEPT !.rate = pRate] ELSE h
      h2 == IF used # h1.npts THEN [h1 EXCEPT !.npts = used] ELSE h1
      fromData == hasData /\ Len(frm) > 0 /\ Len(frm[RefIdx(frm)].a) # 0
      h3 == IF fromData
              THEN (IF Len(frm[RefIdx(frm)].a) # h2.perframe THEN SetPerFrame(h2, Len(frm[RefIdx(frm)].a)) ELSE h2)
              ELSE IF AnalogGroupEmpty(grp) THEN h2
              ELSE IF FTrunc(pRate) = 0
                     THEN (IF h2.perframe # 1 THEN SetPerFrame(h2, 1) ELSE h2)
                     ELSE LET r == FRatioTrunc(Val1(grp, sANALOG, sRATE), pRate) IN
                          IF r # h2.perframe THEN SetPerFrame(h2, r) ELSE h2
      h4 == IF AnalogGroupEmpty(grp) THEN SetAnalogs(h3, 0)
            ELSE IF Val1(grp, sANALOG, sUSED) # HdrAnalogs(h3) THEN SetAnalogs(h3, Val1(grp, sANALOG, sUSED)) ELSE h3
      \* the frame range is reconciled last, once the counts that HdrFrames depends on are final
      h5 == IF nfr # HdrFrames(h4) THEN [h4 EXCEPT !.first = 0, !.last = nfr - 1] ELSE h4
  IN h5

(* ---------- updateParameters (src/ezc3d.cpp:446-548) ---------- *)
ExtendTo(vals, n, fill) == IF Len(vals) >= n THEN vals ELSE vals \o [i \in 1..(n - Len(vals)) |-> fill]
UpdateParamsGrp(grp, frm, newP, newA) ==
  LET nFrames == Len(frm)
      ref == IF nFrames > 0 THEN frm[RefIdx(frm)] ELSE EmptyFrame
      g1 == IF nFrames # Val1(grp, sPOINT, sFRAMES)
              THEN PutParam(grp, sPOINT, sFRAMES, SetInts(GetParam(grp, sPOINT, sFRAMES), <<nFrames>>)) ELSE grp
      oldPL == GetParam(g1, sPOINT, sLABELS).v
      nP == IF nFrames > 0 THEN Len(ref.p) ELSE Len(oldPL) + Len(newP)
      pLabels == IF nFrames = 0 THEN oldPL \o newP ELSE PointNames(ref)
      g2 == IF nP # Val1(g1, sPOINT, sUSED)
              THEN LET a == PutParam(g1, sPOINT, sUSED, SetInts(GetParam(g1, sPOINT, sUSED), <<nP>>))
                       b == PutParam(a, sPOINT, sLABELS, SetStrs(GetParam(a, sPOINT, sLABELS), pLabels))
                       c == PutParam(b, sPOINT, sDESCRIPTIONS, SetStrs(GetParam(b, sPOINT, sDESCRIPTIONS), [i \in 1..nP |-> <<>>]))
                   IN PutParam(c, sPOINT, sUNITS, SetStrs(GetParam(c, sPOINT, sUNITS), [i \in 1..nP |-> smm]))
              ELSE g1
      oldAL == GetParam(g2, sANALOG, sLABELS).v
      nA == IF nFrames > 0 THEN (IF Len(ref.a) > 0 THEN Len(ref.a[1]) ELSE 0) ELSE Len(oldAL) + Len(newA)
      aLabels == IF nFrames = 0 THEN oldAL \o newA ELSE (IF nA = 0 THEN <<>> ELSE ChannelNames(ref.a[1]))
      g3 == IF nA # Val1(g2, sANALOG, sUSED)
              THEN LET a == PutParam(g2, sANALOG, sUSED, SetInts(GetParam(g2, sANALOG, sUSED), <<nA>>))
                       b == PutParam(a, sANALOG, sLABELS, SetStrs(GetParam(a, sANALOG, sLABELS), aLabels))
                       c == PutParam(b, sANALOG, sDESCRIPTIONS, SetStrs(GetParam(b, sANALOG, sDESCRIPTIONS), [i \in 1..nA |-> <<>>]))
                       d == PutParam(c, sANALOG, sSCALE, SetFloats(GetParam(c, sANALOG, sSCALE), ExtendTo(GetParam(c, sANALOG, sSCALE).v, nA, FOne)))
                       e == PutParam(d, sANALOG, sOFFSET, SetInts(GetParam(d, sANALOG, sOFFSET), ExtendTo(GetParam(d, sANALOG, sOFFSET).v, nA, 0)))
                   IN PutParam(e, sANALOG, sUNITS, SetStrs(GetParam(e, sANALOG, sUNITS), ExtendTo(GetParam(e, sANALOG, sUNITS).v, nA, sV)))
              ELSE g2
  IN g3
UpdateParameters(obj, frm, newP, newA) ==
  LET g == UpdateParamsGrp(obj.grp, frm, newP, newA)
  IN [obj EXCEPT !.grp = g, !.frm = frm, !.hdr = UpdateHeader(obj.hdr, g, frm, TRUE)]

(* ---------- C05: the three views agree ---------- *)
Uniform(obj) == \A i \in 1..Len(obj.frm) : Filled(obj.frm[i]) =>
                  \A s \in 1..Len(obj.frm[i].a) : Len(obj.frm[i].a[s]) = Len(obj.frm[i].a[1])
AgreePoints(obj) ==
  /\ obj.hdr.npts = Val1(obj.grp, sPOINT, sUSED)
  /\ \A i \in 1..Len(obj.frm) : Filled(obj.frm[i]) => Len(obj.frm[i].p) = obj.hdr.npts
\* known finding C05/empty-shape-frames: Header::nbFrames() answers 0 whenever the header has neither points nor
\* analogs, also when (empty) frames are stored; the carve-out is exactly that state class
KF_EmptyShapeFrames(obj) == obj.hdr.npts = 0 /\ HdrAnalogs(obj.hdr) = 0 /\ Len(obj.frm) > 0
AgreeFrames(obj) ==
  /\ Val1(obj.grp, sPOINT, sFRAMES) = Len(obj.frm)
  /\ (HdrFrames(obj.hdr) = Len(obj.frm) \/ KF_EmptyShapeFrames(obj))
AgreeAnalogs(obj) ==
  \A i \in 1..Len(obj.frm) : Filled(obj.frm[i]) =>
      /\ Len(obj.frm[i].a) = (IF Len(obj.frm[i].a) = 0 THEN 0 ELSE obj.hdr.perframe)
      /\ Len(obj.frm[i].a) >= 1 =>
            /\ HdrAnalogs(obj.hdr) = Val1(obj.grp, sANALOG, sUSED)
            /\ \A s \in 1..Len(obj.frm[i].a) : Len(obj.frm[i].a[s]) = HdrAnalogs(obj.hdr)
            /\ obj.hdr.meas = HdrAnalogs(obj.hdr) * obj.hdr.perframe
AgreeRate(obj) == RateKey(obj.hdr.rate) = RateKey(Val1(obj.grp, sPOINT, sRATE))
LabelLike(obj, gn, pn, n) == HasParam(obj.grp, gn, pn) => Len(GetParam(obj.grp, gn, pn).v) = n
AgreeLabels(obj) ==
  LET nP == Val1(obj.grp, sPOINT, sUSED)  nA == Val1(obj.grp, sANALOG, sUSED) IN
  /\ (Len(GetParam(obj.grp, sPOINT, sLABELS).v) > 0 =>
        /\ LabelLike(obj, sPOINT, sLABELS, nP) /\ LabelLike(obj, sPOINT, sDESCRIPTIONS, nP) /\ LabelLike(obj, sPOINT, sUNITS, nP)
        /\ \A i \in 1..Len(obj.frm) : Filled(obj.frm[i]) /\ Len(obj.frm[i].p) = nP => PointNames(obj.frm[i]) = GetParam(obj.grp, sPOINT, sLABELS).v)
  /\ (Len(GetParam(obj.grp, sANALOG, sLABELS).v) > 0 =>
        /\ LabelLike(obj, sANALOG, sLABELS, nA) /\ LabelLike(obj, sANALOG, sDESCRIPTIONS, nA)
        /\ LabelLike(obj, sANALOG, sSCALE, nA) /\ LabelLike(obj, sANALOG, sOFFSET, nA) /\ LabelLike(obj, sANALOG, sUNITS, nA))
Agreement(obj) == AgreePoints(obj) /\ AgreeFrames(obj) /\ AgreeAnalogs(obj) /\ AgreeRate(obj) /\ AgreeLabels(obj)
=========================================================================
