---------------------------- MODULE MC_Lookup ----------------------------
(* Bounded instance of EzApi for C11: small objects of every container size (0..2 points,  *)
(* channels, frames, sub-frames; user groups), in every state every positional look-up at   *)
(* {0..size+1, 2^32, 2^64-1} and every by-name look-up with present / absent / upper-cased /  *)
(* space-padded names, and the typed value getters. Names are also *given* with trailing      *)
(* spaces (declaration, setter, naming constructor) and must be stored and found trimmed.     *)
EXTENDS EzContents, Json
CONSTANTS NPts, NFr

blank == <<32, 32>>      \* a name made of spaces only: stored and found as the empty name
p1 == <<112,49>>  p2s == <<112,50,32>>  a1s == <<97,49,32,32>>  a2 == <<97,50>>
gG1 == <<71,49>>  nA == <<65>>
MC_PNames == IF NPts >= 3 THEN {p1, p2s, blank} ELSE IF NPts = 2 THEN {p2s, blank} ELSE {p2s}
MC_ANames == IF NPts >= 3 THEN {a1s, a2, blank} ELSE IF NPts = 2 THEN {a1s, blank} ELSE {a1s}
MC_PRates == {FOfNat(100)}
MC_ARates == {FOfNat(100), FOfNat(200)}
MC_FrameKinds == {"conf", "padded", "ctorpad", "dupnames"}
MC_ColKinds == {"ok1"}
MC_Tags == {1}
MC_UserParams == << [g |-> gG1, p |-> [n |-> nA, d |-> <<100>>, l |-> 0, sets |-> <<[t |-> TCHAR, v |-> <<<<120, 121>>, <<122>>>>, dim |-> <<>>, scalar |-> 0]>>]],
                    \* a float parameter on which a text set was refused afterwards: it reads as floats, not as text
                    [g |-> gG1, p |-> [n |-> <<66>>, d |-> <<>>, l |-> 0, sets |-> <<[t |-> TFLOAT, v |-> <<FOne>>, dim |-> <<>>, scalar |-> 0],
                                                                                     [t |-> TCHAR, v |-> <<<<120>>, <<121>>>>, dim |-> <<3>>, scalar |-> 0]>>]] >>
MC_LockNames == {}
MC_CallerIds == {}
\* one object comes from a file: byte-typed, 3-D, one-dimensional text and empty parameters, a locked group (the typed getters and
\* the look-ups over what only a loaded object can hold); it is only queried
MC_Files == << EncodeWith(AddG(C_small, ExtraGroup), DefaultLayout(Len(C_small.grp) + 1)) >>
LoadedOnlyQueried == /\ (lastOp'.op = "LoadBytes" => hist = <<>>)
                     /\ ((Len(hist) > 0 /\ hist[Len(hist)].op = "LoadBytes") => hist' = hist)
MCNext == Next /\ LoadedOnlyQueried
MC_AliasGroups == {}
Dump == ~Sampled(Len(hist)) \/ PrintT(ToJson([path |-> hist, op |-> lastOp', out |-> lastOut', res |-> lastRes',
                       post |-> [hdr |-> AbsHdr(obj'.hdr), frm |-> obj'.frm]]))
=========================================================================
