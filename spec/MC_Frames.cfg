CONSTANTS
  NTags = 2
  NCallers = 1
  NChan = 1
  PNames <- MC_PNames
  ANames <- MC_ANames
  PRates <- MC_PRates
  ARates <- MC_ARates
  MaxFrames = 2
  MaxPts = 2
  MaxCh = 2
  FrameKinds <- MC_FrameKinds
  ColKinds <- MC_ColKinds
  Tags <- MC_Tags
  IdxSlack = 2
  UserParams <- MC_UserParams
  LockNames <- MC_LockNames
  CallerIds <- MC_CallerIds
  Files <- MC_Files
  AliasGroups <- MC_AliasGroups
  WithAlias = FALSE
  WithEdits = TRUE
  WithReload = FALSE
  Lookups = FALSE
  Phased = TRUE
INIT Init
NEXT Next
VIEW View
INVARIANT MandInv
INVARIANT AgreePointsInv
INVARIANT AgreeFramesInv
INVARIANT AgreeAnalogsInv
INVARIANT AgreeRateInv
PROPERTY RefusedUnchanged
PROPERTY FrameStoreOK
PROPERTY ColumnsOK
PROPERTY CallerIndependent
CHECK_DEADLOCK FALSE
