---------------------------- MODULE MC_Params ----------------------------
(* Bounded instance of EzApi for C09 (and the parameter part of C10): add / replace /      *)
(* lock / unlock over existing and new groups, and the typed setters over every             *)
(* (type, number of values, dimension argument) triple of the bounded alphabet - the shape  *)
(* predicate is a pure function with rich case analysis, each triple becomes one            *)
(* implementation test per reachable state.                                                 *)
EXTENDS EzApi, Json
CONSTANTS MaxVals, Deep, Variant      \* Variant: "triples" (every typed set) | "names" (few sets, names and groups that differ by case only)

gG1 == <<71,49>>  gG2 == <<71,50>>  gG3 == <<71,51>>  gNope == <<78,79,80,69>>
nA == <<65>>  nB == <<66>>
IntPool == <<7, -3, 12345>>
FloatPool == <<FOne, FMinusOne, <<1,2,3,4>>>>
StrPool == <<<<97,98>>, <<99>>, <<>>>>
Pool(t) == IF t = TINT THEN IntPool ELSE IF t = TFLOAT THEN FloatPool ELSE StrPool
Vals(t, n) == SubSeq(Pool(t), 1, n)
DimsQuick == {<<>>, <<0>>, <<1>>, <<2>>, <<3>>, <<1,2>>, <<2,1>>, <<2,0>>, <<1,1,2>>}
DimsDeep == DimsQuick \cup {<<0,2>>, <<3,1>>, <<1,3>>, <<1,1,1,1,1,1,2>>, <<2,1,1,1,1,1,1>>, <<1,1,1,1,1,1,1>>, <<1,1,1,1,1,1,1,1>>, <<0,0>>}
Dims == IF Deep THEN DimsDeep ELSE DimsQuick
OneSet(t, n, dim) == [t |-> t, v |-> Vals(t, n), dim |-> dim, scalar |-> 0]
P(n, d, l, sets) == [n |-> n, d |-> d, l |-> l, sets |-> sets]
Triples == {<<t, n, dim>> : t \in {TINT, TFLOAT, TCHAR}, n \in 0..MaxVals, dim \in Dims}
TripleOps == {[g |-> gG1, p |-> P(nA, <<>>, 0, <<OneSet(x[1], x[2], x[3])>>)] : x \in Triples}
ScalarOps == {[g |-> gG1, p |-> P(nA, <<>>, 0, <<[t |-> t, v |-> Vals(t, 1), dim |-> <<>>, scalar |-> 1]>>)] : t \in {TINT, TFLOAT, TCHAR}}
DeepOps == {
  [g |-> sPOINT, p |-> P(nA, <<>>, 0, <<OneSet(TINT, 2, <<>>)>>)],
  [g |-> gG2, p |-> P(nB, <<>>, 0, <<OneSet(TINT, 3, <<2>>), OneSet(TCHAR, 2, <<2>>)>>)],   \* refused first, accepted second
  [g |-> gG1, p |-> P(nB, <<>>, 0, <<OneSet(TCHAR, 2, <<>>)>>)] }
OtherOps == {
  [g |-> gG1, p |-> P(nB, <<100,101>>, 1, <<OneSet(TINT, 1, <<>>)>>)],
  [g |-> gG2, p |-> P(nA, <<>>, 0, <<OneSet(TFLOAT, 1, <<>>)>>)],
  [g |-> gG1, p |-> P(<<>>, <<>>, 0, <<OneSet(TINT, 1, <<>>)>>)],           \* unnamed -> invalid_argument
  [g |-> gG1, p |-> P(nA, <<>>, 0, <<>>)],                                    \* untyped -> runtime_error
  [g |-> gG3, p |-> P(nA, <<>>, 0, <<>>)],                                    \* untyped for a group that does not exist: no group may appear
  [g |-> gG1, p |-> P(nB, <<>>, 0, <<OneSet(TINT, 2, <<>>), OneSet(TFLOAT, 1, <<2>>)>>)],   \* refused set after an accepted one
  [g |-> gG1, p |-> P(nB, <<>>, 0, <<OneSet(TINT, 1, <<>>), OneSet(TINT, 2, <<3>>)>>)],     \* refused set announcing more values than are held
  [g |-> gG1, p |-> P(nB, <<>>, 0, <<OneSet(TFLOAT, 2, <<>>), OneSet(TCHAR, 2, <<3>>)>>)]   \* refused text set after accepted numbers: still a float parameter
}
CaseOps == {
  [g |-> gG1, p |-> P(<<97>>, <<>>, 0, <<OneSet(TINT, 1, <<>>)>>)],           \* "a" next to "A": names are compared exactly, a second parameter
  [g |-> gG1, p |-> P(<<97>>, <<>>, 0, <<OneSet(TCHAR, 1, <<>>)>>)],
  [g |-> <<103,49>>, p |-> P(nA, <<>>, 0, <<OneSet(TFLOAT, 1, <<>>)>>)],      \* "g1" next to "G1": a second group
  [g |-> sPOINT, p |-> P(<<85,115,101,100>>, <<>>, 0, <<OneSet(TINT, 1, <<>>)>>)]    \* POINT:Used is not POINT:USED
}
LOCAL SX == INSTANCE SequencesExt
SetToSeq(S) == SX!SetToSeq(S)        \* (the module's Java implementation: a recursive definition overflows TLC's stack on the deep alphabet)
MC_UserParams == IF Variant = "names" THEN SetToSeq(ScalarOps \cup OtherOps \cup CaseOps) ELSE SetToSeq(TripleOps \cup ScalarOps \cup OtherOps \cup (IF Deep THEN DeepOps ELSE {}))
gG4 == <<71,52>>
MC_AliasGroups == {gG4}
MC_LockNames == IF Deep THEN {gG1, gG2, gNope} ELSE {gG1, gNope}
MC_PNames == {}  MC_ANames == {}  MC_PRates == {}  MC_ARates == {}
MC_FrameKinds == {}  MC_ColKinds == {}  MC_Tags == {1}  MC_CallerIds == {}
MC_Files == <<>>
Dump == ~Sampled(Len(hist)) \/ PrintT(ToJson([path |-> hist, op |-> lastOp', out |-> lastOut', sets |-> lastSets',
                       post |-> [hdr |-> AbsHdr(obj'.hdr), prm |-> obj'.prm, grp |-> obj'.grp, frm |-> obj'.frm]]))

\* C09: what was asked is what is stored, and nothing else moves
ParamEditOK ==
  [][ (lastOp'.op = "SetParam" /\ lastOut' = "ok") =>
        LET gname == lastOp'.g
            built == ApplySets([MkParam(lastOp'.p.n, lastOp'.p.d) EXCEPT !.l = lastOp'.p.l], lastOp'.p.sets).p
            gi0 == GroupIdx(obj.grp, gname)
            gi == GroupIdx(obj'.grp, gname) IN
        /\ gi # 0
        /\ (gi0 = 0 => gi = Len(obj.grp) + 1 /\ Len(obj'.grp) = Len(obj.grp) + 1)            \* group created at the end
        /\ (gi0 # 0 => gi = gi0 /\ Len(obj'.grp) = Len(obj.grp))
        /\ \A j \in 1..Len(obj.grp) : j # gi => obj'.grp[j] = obj.grp[j]                        \* every other group unchanged, in place
        /\ LET g1 == obj'.grp[gi]  pi == ParamIdx(g1, built.n) IN
           /\ pi # 0 /\ g1.p[pi] = built                                                        \* look-up returns what was given
           /\ (gi0 # 0 =>
                 LET g0 == obj.grp[gi0]  pi0 == ParamIdx(g0, built.n) IN
                 /\ g1.n = g0.n /\ g1.d = g0.d /\ g1.l = g0.l
                 /\ (pi0 # 0 => pi = pi0 /\ Len(g1.p) = Len(g0.p))                              \* replaced in place
                 /\ (pi0 = 0 => pi = Len(g0.p) + 1 /\ Len(g1.p) = Len(g0.p) + 1)                \* else appended
                 /\ \A k \in 1..Len(g0.p) : k # pi => g1.p[k] = g0.p[k]) ]_vars
LockOK ==
  [][ (lastOp'.op \in {"LockGroup", "UnlockGroup"} /\ lastOut' = "ok") =>
        LET gi == GroupIdx(obj.grp, lastOp'.g) IN
        /\ obj'.grp[gi].l = (IF lastOp'.op = "LockGroup" THEN 1 ELSE 0)
        /\ [obj'.grp EXCEPT ![gi].l = obj.grp[gi].l] = obj.grp
        /\ obj'.hdr = obj.hdr /\ obj'.frm = obj.frm ]_vars
\* the shape predicate itself: accepted exactly when the element count equals the product of the dimensions
ShapeRule ==
  \A x \in Triples :
     LET dim == ArgDim(Vals(x[1], x[2]), x[3]) IN
     (SetOutcome(Vals(x[1], x[2]), x[3]) = "ok") <=> (IF x[2] = 0 THEN (dim = <<>> \/ Product(dim) = 0) ELSE Product(dim) = x[2])
=========================================================================
