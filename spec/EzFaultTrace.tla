--------------------------- MODULE EzFaultTrace ---------------------------
(* Trace specification for C15: every recorded save-under-fault of the real library must   *)
(* be a step of EzFault.SaveUnderFault with the recorded outcome and disk length.           *)
EXTENDS EzFault, Json, IOUtils, TLC
TraceLog == ndJsonDeserialize(IOEnv.TRACE)
VARIABLE l
tvars == <<fault, len, disk, outcome, l>>
TraceInit == Init /\ l = 1
TraceStep ==
  /\ l <= Len(TraceLog)
  /\ LET ev == TraceLog[l] IN
     /\ ev.e = "SaveFault"
     \* where the disk is observable it must be what the spec allows; elsewhere (-1 = no file) is the witness. Bound before the
     \* action so that TLC checks membership instead of enumerating every disk length up to the file size
     /\ disk' = (IF ev.kind \in {"none", "fsize"} THEN ev.disk_len ELSE -1)
     /\ outcome' = ev.out                         \* the recorded outcome class must be the specified one
     /\ SaveUnderFault(ev.kind, ev.k, ev.ref_len)
     /\ (ev.out = "ok" => ev.prefix_ok = 1)       \* a normal return: the bytes on the disk are the fault-free bytes (a failed save
                                                  \* may leave anything: the writer back-patches earlier bytes at the end)
  /\ l' = l + 1
TraceSpec == TraceInit /\ [][TraceStep]_tvars
\* accepted iff every line was consumed; otherwise the number of consumed lines locates the first rejected event
TraceAccepted == LET d == TLCGet("stats").diameter IN
                 IF d - 1 = Len(TraceLog) THEN TRUE ELSE PrintT(<<"TRACE-REJECTED-AT", d>>) /\ FALSE
=============================================================================
