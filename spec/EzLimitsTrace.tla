--------------------------- MODULE EzLimitsTrace ---------------------------
(* Trace specification for C17: each recorded save+load of a boundary case must be an EzLimits.Allowed step. *)
EXTENDS EzLimits
TraceLog == ndJsonDeserialize(IOEnv.TRACE)
VARIABLE l
TraceInit == Init /\ l = 1
TraceStep ==
  /\ l <= Len(TraceLog)
  /\ LET ev == TraceLog[l] IN
     /\ ev.e = "Limit"
     /\ Allowed(ev.comps, ev.save, ev.load, ev.same)
     /\ case' = ev.comps /\ save' = ev.save /\ load' = ev.load /\ same' = ev.same
  /\ l' = l + 1
TraceAccepted == LET d == TLCGet("stats").diameter IN
                 IF d - 1 = Len(TraceLog) THEN TRUE ELSE PrintT(<<"TRACE-REJECTED-AT", d>>) /\ FALSE
=============================================================================
