INIT TraceInit
NEXT TraceStep
INVARIANT NeverSilentlyDifferent
POSTCONDITION TraceAccepted
CHECK_DEADLOCK FALSE
