------------------------------ MODULE EzJudge ------------------------------
(* Second opinion on a saved file whose bytes differ from the writer model: the properties   *)
(* speak about what the file *decodes to*, not about ezc3d's particular layout. For each      *)
(* case (the object before the save, the bytes the real code wrote) TLC evaluates the        *)
(* layout-independent predicates on the real bytes: SelfConsistent (C03, with the known       *)
(* scale-word carve-out) and content equality through the reader model and through the        *)
(* independent decoder (C01 / C04). A difference that passes both is MODEL-DRIFT, not a        *)
(* violation.                                                                                 *)
EXTENDS C3DFormat, TLC, Json, IOUtils
Cases == ndJsonDeserialize(IOEnv.CASES)
ObjOf(p) == [hdr |-> [f \in DOMAIN p.hdr \ {"nanalogs", "nframes"} |-> p.hdr[f]], prm |-> p.prm, grp |-> p.grp, frm |-> p.frm]
Verdict(c) ==
  LET o == ObjOf(c.pre)  b == c.bytes  r == ReaderModel(b)  d == Decode(b) IN
  [consistent |-> SelfConsistentKF(b, o),
   roundtrip  |-> r.out = "ok" /\ r.end = Len(b) /\ EbAssumption(b, CountZeros(b, 0)) /\ Content(r.obj) = Content(o),
   decodes    |-> "bad" \notin DOMAIN d /\ d.hdr = Content(o).hdr /\ d.frm = Content(o).frm /\ SeqToSet(d.grp) = SeqToSet(Content(o).grp)]
ASSUME \A i \in 1..Len(Cases) : PrintT(ToJson([case |-> i] @@ Verdict(Cases[i])))
VARIABLE x
Init == x = 0
Next == UNCHANGED x
=============================================================================
