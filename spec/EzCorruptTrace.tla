-------------------------- MODULE EzCorruptTrace --------------------------
(* Trace specification for C16: every recorded load of a damaged file must be a Load step  *)
(* of EzCorrupt: the event says "loaded" or "refused". Events of any other kind (signal,     *)
(* sanitizer report, non-standard exception, allocation over budget, timeout) have no action. *)
EXTENDS Naturals, Sequences, TLC, Json, IOUtils
TraceLog == ndJsonDeserialize(IOEnv.TRACE)
VARIABLES outcome, l
TraceInit == outcome = "none" /\ l = 1
TraceStep ==
  /\ l <= Len(TraceLog)
  /\ TraceLog[l].e = "LoadMut"
  /\ outcome' \in {"loaded", "refused"} /\ outcome' = TraceLog[l].out
  /\ l' = l + 1
Outcomes == outcome \in {"none", "loaded", "refused"}
TraceAccepted == LET d == TLCGet("stats").diameter IN
                 IF d - 1 = Len(TraceLog) THEN TRUE ELSE PrintT(<<"TRACE-REJECTED-AT", d>>) /\ FALSE
=============================================================================
