CONSTANTS
  NThreads = 2
  LenEach = 3
INIT Init
NEXT Next
INVARIANT LocalView
INVARIANT EmitWhenDone
CHECK_DEADLOCK FALSE
