---------------------------- MODULE MC_Align ----------------------------
(* C03 alignment sweep (also C01/C04): the padding / back-patch arithmetic of the parameter   *)
(* section is exercised for every residue 0..511 of the section length modulo the block size.  *)
(* From one base object (1 point, 1 frame whose first byte in the data section is non-zero) a   *)
(* user parameter of k integers with a description of d characters is added (record size 2k+d   *)
(* + constant, k = 0..255, d = 0..2: all 512 residues), then the object is saved and loaded.    *)
(* TLC evaluates IOInv (round trip, self-consistency, idempotence) in every state; every         *)
(* transition is replayed on real files (saved bytes = writer model bytes).                      *)
EXTENDS EzApi, Json
CONSTANTS KMax, FromLoaded      \* k ranges over 0..KMax; FromLoaded: the base object is first saved and loaded (load-then-edit)

p1 == <<112,49>>
gUSR == <<85,83,82>>  nFILL == <<70,73,76,76>>
RateOp == [op |-> "SetParam", g |-> sPOINT, p |-> RateParam(sRATE, FOfNat(100))]
DeclOp == [op |-> "DeclPoint", n |-> p1]
Frame1 == [p |-> <<[n |-> p1, v |-> <<<<205, 204, 140, 63>>, <<1, 2, 3, 64>>, <<0, 0, 128, 63>>, <<0, 0, 0, 0>>>>]>>, a |-> <<>>]     \* x = 1.1f: low byte non-zero
FrameOp == [op |-> "AddFrame", idx |-> -1, frame |-> Frame1]
Base0 ==
  LET o0 == DefaultObject
      g1 == PutParam(o0.grp, sPOINT, sRATE, Locked(SetFloats(MkParam(sRATE, <<>>), <<FOfNat(100)>>)))
      o1 == [o0 EXCEPT !.grp = g1, !.hdr = UpdateHeader(o0.hdr, g1, <<>>, TRUE)]
      o2 == UpdateParameters(o1, <<>>, <<p1>>, <<>>)
  IN UpdateParameters(o2, <<Frame1>>, <<>>, <<>>)
BaseObj == IF FromLoaded THEN ReaderModel(WriterModel(Base0)).obj ELSE Base0
BaseHist == <<RateOp, DeclOp, FrameOp>> \o (IF FromLoaded THEN <<[op |-> "Reload", path |-> ReloadPath]>> ELSE <<>>)
Filler(k, d) == [g |-> gUSR, p |-> [n |-> nFILL, d |-> [i \in 1..d |-> 100], l |-> 0, sets |-> <<[t |-> TINT, v |-> [i \in 1..k |-> i - 100], dim |-> <<>>, scalar |-> 0]>>]]
\* (a single integer is written as a scalar, one byte shorter: descriptions of 0..2 characters close the gap it leaves)
MC_UserParams == [i \in 1..(3 * (KMax + 1)) |-> Filler((i - 1) \div 3, (i - 1) % 3)]
AlignInit ==
  /\ obj = BaseObj /\ callers = [k \in {} |-> EmptyFrame]
  /\ hist = BaseHist /\ lastOp = BaseHist[Len(BaseHist)] /\ lastOut = "ok" /\ lastSets = <<>> /\ lastRes = <<>> /\ inScope = TRUE
AlignNext ==
  \/ \E i \in 1..Len(UserParams) : GroupIdx(obj.grp, gUSR) = 0 /\ SetParam(UserParams[i].g, UserParams[i].p)
  \/ (GroupIdx(obj.grp, gUSR) # 0 /\ Reload)
MC_Files == <<>>
MC_PNames == {}  MC_ANames == {}  MC_PRates == {}  MC_ARates == {}
MC_FrameKinds == {}  MC_ColKinds == {}  MC_Tags == {1}  MC_CallerIds == {}  MC_LockNames == {}
\* every residue of the section length is reached (anti-vacuity, checked by TLC as an ASSUME over the alphabet)
WithFiller(i) == LET q == ApplySets([MkParam(MC_UserParams[i].p.n, MC_UserParams[i].p.d) EXCEPT !.l = 0], MC_UserParams[i].p.sets).p
                 IN Append(BaseObj.grp, MkGroup(gUSR, <<q>>))
Residues == {SectionSize(WithFiller(i)) % 512 : i \in 1..Len(MC_UserParams)}
ASSUME KMax = 255 => Residues = 0..511
MC_AliasGroups == {}
Dump == ~Sampled(Len(hist)) \/ PrintT(ToJson([path |-> hist, op |-> lastOp', out |-> lastOut', post |-> Abs(obj'),
                       bytes |-> IF lastOp'.op = "Reload" /\ lastOut' # "range_error" THEN WriterModel(obj) ELSE <<>>]))
=========================================================================
