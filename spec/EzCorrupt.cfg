CONSTANTS
  NSeeds = 1
  Stride = 7
INIT Init
NEXT Next
INVARIANT Outcomes
CHECK_DEADLOCK FALSE
