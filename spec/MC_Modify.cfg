CONSTANTS
  Quick = TRUE
  PNames <- MC_PNames
  ANames <- MC_ANames
  PRates <- MC_PRates
  ARates <- MC_ARates
  MaxFrames = 3
  MaxPts = 3
  MaxCh = 3
  FrameKinds <- MC_FrameKinds
  ColKinds <- MC_ColKinds
  Tags <- MC_Tags
  IdxSlack = 1
  UserParams <- MC_UserParams
  LockNames <- MC_LockNames
  CallerIds <- MC_CallerIds
  Files <- MC_Files
  AliasGroups <- MC_AliasGroups
  WithAlias = FALSE
  WithEdits = FALSE
  WithReload = TRUE
  Lookups = FALSE
  Phased = FALSE
INIT Init
NEXT MCNext
VIEW View
INVARIANT IOInvIf
INVARIANT AgreeFramesInv
INVARIANT AgreeRateInv
PROPERTY RefusedUnchanged
PROPERTY FrameStoreOK
PROPERTY ColumnsOK
CHECK_DEADLOCK FALSE
