INIT TraceInit
NEXT TraceStep
INVARIANT Outcomes
POSTCONDITION TraceAccepted
CHECK_DEADLOCK FALSE
