----------------------------- MODULE EzThreads -----------------------------
(* C18: N threads, each performing its own sequence of calls on objects it shares with     *)
(* nobody (own object, own file paths). A step of the system is one call of one thread.      *)
(* The state of a thread is determined by the prefix of its own calls it has performed -     *)
(* that is the definition of "independent": there is no shared variable through which a       *)
(* call of one thread could influence another. TLC enumerates every interleaving at call      *)
(* granularity; each complete interleaving is exported and forced on real threads by the      *)
(* harness (token passing), where every thread must observe the single-thread results the     *)
(* specification (EzApi / EzIO) predicts for its own call sequence.                           *)
EXTENDS Naturals, Sequences, FiniteSets, TLC, Json
CONSTANTS NThreads, LenEach       \* every thread performs LenEach calls
Lens == [t \in 1..NThreads |-> LenEach]

VARIABLES pc, order
vars == <<pc, order>>
Threads == 1..NThreads
Init == pc = [t \in Threads |-> 0] /\ order = <<>>
Step(t) == pc[t] < Lens[t] /\ pc' = [pc EXCEPT ![t] = @ + 1] /\ order' = Append(order, t)
Next == \E t \in Threads : Step(t)
Spec == Init /\ [][Next]_vars
Done == \A t \in Threads : pc[t] = Lens[t]
\* the per-thread view of a behaviour: how many of its own calls a thread has performed = the number of its entries in the order
LocalView == \A t \in Threads : pc[t] = Cardinality({i \in 1..Len(order) : order[i] = t})
\* every complete interleaving is printed once (the VIEW is the whole state, so distinct orders are distinct states)
EmitWhenDone == Done => PrintT(ToJson([order |-> order]))
=============================================================================
