
