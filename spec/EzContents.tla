---------------------------- MODULE EzContents ----------------------------
(* Objects as a foreign writer might hold them: the contents from which MC_Format, MC_Modify  *)
(* and MC_Align generate files with the specification's own encoder (EncodeWith).              *)
EXTENDS EzApi

cp1 == <<112,49>>  cp2 == <<80,50>>  ca1 == <<97,49>>  ca2 == <<65,50>>
(* ---- contents: objects as a foreign writer might hold them ---- *)
SetP(o, gn, pn, q) == [o EXCEPT !.grp = PutParam(o.grp, gn, pn, q)]
AddP(o, gn, q) == LET gi == GroupIdx(o.grp, gn) IN [o EXCEPT !.grp[gi].p = Append(@, q)]
AddG(o, g) == [o EXCEPT !.grp = Append(@, g)]
BuildR(pn, an, ns, nf, prate, arate) ==
  LET o0 == DefaultObject
      o1 == SetP(o0, sPOINT, sRATE, SetFloats(GetParam(o0.grp, sPOINT, sRATE), <<prate>>))
      o2 == SetP(o1, sANALOG, sRATE, SetFloats(GetParam(o1.grp, sANALOG, sRATE), <<arate>>))
      o3 == UpdateParameters([o2 EXCEPT !.hdr = UpdateHeader(o2.hdr, o2.grp, <<>>, TRUE)], <<>>, pn, an)
      frames == [f \in 1..nf |-> MkFrame(pn, IF an = <<>> THEN 0 ELSE ns, an, f)]
  IN UpdateParameters(o3, frames, <<>>, <<>>)
Build(pn, an, ns, nf) == BuildR(pn, an, ns, nf, FOfNat(100), FOfNat(100 * (IF ns = 0 THEN 1 ELSE ns)))
\* 59.94 Hz points, 3 x 59.94 Hz analogs as the nearest floats: the exact quotient of the two floats is 2.99999994, the single-precision
\* division the reader performs gives 3.0 (header word: 3 sub-frames)
C_ntsc == BuildR(<<cp1>>, <<ca1>>, 3, 2, <<143, 194, 111, 66>>, <<235, 209, 51, 67>>)
MkP(n, d, l, t, dim, v) == [n |-> n, d |-> d, l |-> l, t |-> t, dim |-> dim, v |-> v]
LongDesc(n) == [i \in 1..n |-> 65 + (i % 26)]
ExtraGroup ==
  [n |-> <<77, 105, 120, 101, 100>>, d |-> <<103, 114, 112>>, l |-> 1, p |-> <<      \* "Mixed", locked, with a description
     MkP(<<66, 89, 84, 69, 83>>, <<>>, 0, TBYTE, <<3>>, <<0, 127, -128>>),            \* byte-typed values
     MkP(<<67, 117, 98, 101>>, LongDesc(130), 1, TINT, <<2, 1, 3>>, <<1, -2, 3, -4, 32767, -32768>>),   \* 3-D, 130-character description, locked
     MkP(<<72, 69, 76, 76, 79>>, <<>>, 0, TCHAR, <<8>>, <<<<104, 101, 108, 108, 111>>>>),               \* padded one-dimensional string
     MkP(<<84, 88, 84>>, <<>>, 0, TCHAR, <<4, 2>>, <<<<97, 98>>, <<>>>>),                               \* padded cells, one of them empty
     MkP(<<69, 77, 80, 84, 89>>, <<>>, 0, TFLOAT, <<0>>, <<>>),
     MkP(<<70, 76, 84>>, <<>>, 0, TFLOAT, <<2>>, <<<<0, 0, 128, 127>>, <<1, 0, 0, 128>>>>),             \* +inf, negative denormal
     MkP(<<79, 78, 69>>, <<>>, 0, TCHAR, <<1>>, <<<<122>>>>),
     MkP(<<76, 79, 78, 71>>, <<>>, 0, TCHAR, <<200>>, <<<<104, 105>>>>) >>]                              \* one-dimensional text declared 200 long, holding "hi"                                        \* one character
WithEvents(o) == [o EXCEPT !.hdr.nev = 2, !.hdr.evt = [i \in 1..18 |-> IF i = 1 THEN <<0, 0, 128, 63>> ELSE IF i = 2 THEN <<0, 0, 32, 65>> ELSE FZero],
                           !.hdr.evd = [i \in 1..9 |-> IF i = 1 THEN 257 ELSE 0],
                           !.hdr.evl = [i \in 1..18 |-> IF i = 1 THEN <<69, 86, 84, 49>> ELSE IF i = 2 THEN <<69, 50>> ELSE <<>>], !.hdr.gap = 65535]
\* first frame number 5: header first/last shifted, POINT:FRAMES unchanged
Shifted(o) == [o EXCEPT !.hdr.first = 4, !.hdr.last = 4 + Len(o.frm) - 1]
\* one label fewer / one more than points in use: the reader falls back to unlabeled_point_<i>
Relabel(o, k) ==
  LET lab == GetParam(o.grp, sPOINT, sLABELS)
      nl == IF k < 0 THEN SubSeq(lab.v, 1, Len(lab.v) - 1) ELSE Append(lab.v, <<120, 120>>)
      names == [i \in 1..Len(lab.v) |-> IF i <= Len(nl) THEN nl[i] ELSE UnlabeledP(i - 1)]
      o1 == SetP(o, sPOINT, sLABELS, SetStrs(lab, nl))
  IN [o1 EXCEPT !.frm = [f \in 1..Len(o.frm) |-> [o.frm[f] EXCEPT !.p = [i \in 1..Len(@) |-> [@[i] EXCEPT !.n = names[i]]]]]]
\* the same for channels: fewer / more ANALOG:LABELS than channels in use (unlabeled_analog_<i>)
RelabelA(o, k) ==
  LET lab == GetParam(o.grp, sANALOG, sLABELS)
      nl == IF k < 0 THEN SubSeq(lab.v, 1, Len(lab.v) - 1) ELSE Append(lab.v, <<121, 121>>)
      names == [i \in 1..Len(lab.v) |-> IF i <= Len(nl) THEN nl[i] ELSE UnlabeledA(i - 1)]
      o1 == SetP(o, sANALOG, sLABELS, SetStrs(lab, nl))
  IN [o1 EXCEPT !.frm = [f \in 1..Len(o.frm) |-> [o.frm[f] EXCEPT !.a = [s \in 1..Len(@) |-> [i \in 1..Len(@[s]) |-> [@[s][i] EXCEPT !.n = names[i]]]]]]]
\* "Optotrak": an ANALOG group without any parameter (only meaningful without channels)
AnalogEmpty(o) == [o EXCEPT !.grp[GroupIdx(o.grp, sANALOG)].p = <<>>]
\* a parameter record longer than 32767 bytes (the next-offset is an unsigned 16-bit word)
BigGroup == [n |-> <<67, 65, 76, 73, 66>>, d |-> <<>>, l |-> 0, p |-> <<
               MkP(<<84, 65, 66, 76, 69>>, <<116>>, 0, TFLOAT, <<128, 65>>, [i \in 1..8320 |-> <<i % 256, (i \div 256) % 256, 128, 63>>]),
               MkP(<<65, 70, 84, 69, 82>>, <<>>, 0, TINT, <<2>>, <<7, -7>>) >>]
C_small  == Build(<<cp1>>, <<ca1>>, 2, 1)
C_two    == Build(<<cp1, cp2>>, <<ca1, ca2>>, 1, 2)
C_pts    == Build(<<cp1, cp2>>, <<>>, 0, 2)
C_ana    == Build(<<>>, <<ca1>>, 2, 2)
C_none   == Build(<<>>, <<>>, 0, 0)
\* a file without POINT:DESCRIPTIONS (many writers omit the optional per-point texts)
DropParam(o, gn, pn) == LET gi == GroupIdx(o.grp, gn) IN [o EXCEPT !.grp[gi].p = SelectSeq(@, LAMBDA q : q.n # pn)]
=============================================================================
