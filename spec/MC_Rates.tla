---------------------------- MODULE MC_Rates ----------------------------
(* Bounded instance of EzApi for the rate clauses of C05 / C07: one point, one channel,     *)
(* and a rate alphabet chosen at the comparisons the code makes - zero, rates below 1 Hz      *)
(* (their integer part is 0, they are not "unspecified"), two rates 0.005 Hz apart (far more  *)
(* than the 1e-4 Hz to which the header follows POINT:RATE, far less than 0.01 %), the NTSC    *)
(* rates 119.88 and 120000/1001, and analog rates giving the sub-frame ratios 0, 1, 2, 400.    *)
EXTENDS EzApi, Json
CONSTANTS NP, NA, Quick

p1 == <<112,49>>  p2 == <<112,50>>  p3 == <<112,51>>
a1 == <<97,49>>   a2 == <<97,50>>
MC_PNames == IF NP >= 3 THEN {p1, p2, p3} ELSE IF NP = 2 THEN {p1, p2} ELSE {p1}
MC_ANames == IF NA >= 2 THEN {a1, a2} ELSE IF NA = 1 THEN {a1} ELSE {}
F_half == <<0, 0, 0, 63>>  F_quarter == <<0, 0, 128, 62>>  F_100_005 == <<143, 2, 200, 66>>
F_119_88 == <<143, 194, 239, 66>>  F_ntsc120 == <<159, 194, 239, 66>>
MC_PRates == IF Quick THEN {FZero, F_half, FOfNat(100), F_100_005} ELSE {FZero, F_half, F_quarter, FOfNat(100), F_100_005, F_119_88, F_ntsc120}
MC_ARates == IF Quick THEN {FZero, F_quarter, F_half, FOfNat(200)} ELSE {FZero, F_quarter, F_half, FOfNat(1), FOfNat(100), FOfNat(200), F_ntsc120}
MC_FrameKinds == {"conf", "empty", "lessch", "morech"}
MC_ColKinds == {"ok1", "fewer", "more"}
MC_Tags == {1}
\* POINT:FRAMES set by hand to 1, whatever the data set holds: the column adders compare their argument with the data set
MC_UserParams == << [g |-> sPOINT, p |-> [n |-> sFRAMES, d |-> <<>>, l |-> 0, sets |-> <<[t |-> TINT, v |-> <<1>>, dim |-> <<>>, scalar |-> 0]>>]] >>
\* (once a derived parameter has been overwritten by hand the shape is what the caller says: inScope is FALSE from then on)
AgreeFramesScoped == inScope => AgreeFrames(obj)
MC_LockNames == {}
MC_CallerIds == {}

MC_Files == <<>>
MC_AliasGroups == {}
Dump == ~Sampled(Len(hist)) \/ PrintT(ToJson([path |-> hist, op |-> lastOp', out |-> lastOut', sets |-> lastSets', post |-> Abs(obj')]))
=========================================================================
