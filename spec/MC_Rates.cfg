CONSTANTS
  NP = 1
  NA = 1
  Quick = TRUE
  PNames <- MC_PNames
  ANames <- MC_ANames
  PRates <- MC_PRates
  ARates <- MC_ARates
  MaxFrames = 2
  MaxPts = 1
  MaxCh = 1
  FrameKinds <- MC_FrameKinds
  ColKinds <- MC_ColKinds
  Tags <- MC_Tags
  IdxSlack = 2
  UserParams <- MC_UserParams
  LockNames <- MC_LockNames
  CallerIds <- MC_CallerIds
  Files <- MC_Files
  AliasGroups <- MC_AliasGroups
  WithAlias = FALSE
  WithEdits = FALSE
  WithReload = FALSE
  Lookups = FALSE
  Phased = FALSE
INIT Init
NEXT Next
VIEW View
INVARIANT MandInv
INVARIANT AgreePointsInv
INVARIANT AgreeFramesScoped
INVARIANT AgreeAnalogsInv
INVARIANT AgreeRateInv
INVARIANT AgreeLabelsInv
INVARIANT ConformingAccepted
PROPERTY RefusedUnchanged
PROPERTY FrameStoreOK
PROPERTY ColumnsOK
CHECK_DEADLOCK FALSE
