INIT Init
NEXT Next
INVARIANT ReportedOrComplete
CHECK_DEADLOCK FALSE
