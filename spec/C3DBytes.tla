---------------------------- MODULE C3DBytes ----------------------------
(* Bytes, little-endian words, float bit patterns, byte-code strings.           *)
(* Everything the C3D format and ezc3d do to raw bytes, as integer arithmetic.  *)
(* A float is never a number here: it is the tuple of its four bytes (F32),     *)
(* low byte first, which is what makes "bit-for-bit" checkable in TLC.          *)
EXTENDS Naturals, Integers, Sequences, FiniteSets

Byte == 0..255
F32  == [1..4 -> Byte]

(* ---------- integers ---------- *)
Pow2(n) == 2^n
U16(b0, b1) == b0 + 256 * b1                        \* unsigned 16-bit word, as the reader's readUint(2)
S16(b0, b1) == LET u == U16(b0, b1) IN IF u > 32767 THEN u - 65536 ELSE u   \* hex2int(len=2): "> max/2" is negative
S8(b0)      == IF b0 > 127 THEN b0 - 256 ELSE b0     \* hex2int(len=1)
\* what `f.write(reinterpret_cast<const char*>(&intValue), n)` emits: the low n bytes of a two's complement int
Mod(a, m)   == ((a % m) + m) % m
LowByte(v)  == Mod(v, 256)
LE16(v)     == <<Mod(v, 256), Mod(v, 65536) \div 256>>
\* 32-bit little-endian from an integer that fits TLC's range
LE32(v)     == LET u == IF v < 0 THEN v + 2147483647 + 1 ELSE v        \* low 31 bits of the two's complement
                   hi == IF v < 0 THEN 128 ELSE 0
               IN <<u % 256, (u \div 256) % 256, (u \div 65536) % 256, ((u \div 16777216) % 128) + hi>>
S32(b) == LET lo == b[1] + 256 * b[2] + 65536 * b[3] + 16777216 * (b[4] % 128)
          IN IF b[4] > 127 THEN (lo - 2147483647) - 1 ELSE lo

\* C12 lemmas, evaluated exhaustively by TLC (spec/MC_Bytes): decode then encode is the identity on bytes
Lemma_S16_LE16 == \A b0 \in Byte, b1 \in Byte : LE16(S16(b0, b1)) = <<b0, b1>>
Lemma_U16_LE16 == \A b0 \in Byte, b1 \in Byte : LE16(U16(b0, b1)) = <<b0, b1>>
Lemma_S8_Low   == \A b0 \in Byte : LowByte(S8(b0)) = b0
Lemma_S16_Range == \A b0 \in Byte, b1 \in Byte : S16(b0, b1) \in -32768..32767 /\ (S16(b0, b1) < 0 <=> b1 > 127)
Lemma_S16_Inj  == \A v \in -32768..32767 : S16(LE16(v)[1], LE16(v)[2]) = v

(* ---------- floats as bit patterns ---------- *)
FZero == <<0, 0, 0, 0>>
FOne  == <<0, 0, 128, 63>>
FMinusOne == <<0, 0, 128, 191>>
FSign(b) == b[4] \div 128
FExp(b)  == (b[4] % 128) * 2 + b[3] \div 128
FMant(b) == (b[3] % 128) * 65536 + b[2] * 256 + b[1]
FSig(b)  == 8388608 + FMant(b)                        \* 2^23 + mantissa (normal numbers)
FIsZero(b) == FExp(b) = 0 /\ FMant(b) = 0             \* compares equal to 0.0 (+0 and -0)
FIsNegative(b) == FSign(b) = 1 /\ ~FIsZero(b) /\ ~(FExp(b) = 255 /\ FMant(b) # 0)   \* "< 0" is false for NaN
Huge == 2147483647
\* integer part, toward zero, of a finite float; saturates at Huge (static_cast<size_t>/<int> of larger values)
FTrunc(b) ==
  LET e == FExp(b) IN
  IF e < 127 THEN 0
  ELSE IF e >= 158 THEN Huge
  ELSE LET mag == IF e >= 150 THEN FSig(b) * Pow2(e - 150) ELSE FSig(b) \div Pow2(150 - e)
       IN IF FSign(b) = 1 THEN 0 - mag ELSE mag
\* trunc(frac(|v|) * 10000) for |v| < 2^24, computed without leaving 32 bits
FFrac1e4(b) ==
  LET e == FExp(b) IN
  IF e >= 150 \/ e = 0 THEN 0
  ELSE LET k  == 150 - e                              \* v = sig / 2^k
           x  == IF k >= 24 THEN FSig(b) ELSE FSig(b) % Pow2(k)
           xh == x \div 4096  xl == x % 4096
           q  == xh * 10000   r == xl * 10000
       IN IF k > 42 THEN 0
          ELSE IF k >= 12 THEN (q + r \div 4096) \div Pow2(k - 12)
          ELSE r \div Pow2(k)
\* the key under which updateHeader compares two rates: static_cast<int>(rate * 10000)
RateKey(b) == <<FTrunc(b), FFrac1e4(b)>>
\* static_cast<size_t>(a / p) for positive finite floats whose quotient is not within an ulp of an integer from below
\* binary long division: LongDivQR(q, r, p, d) continues the division r / p for d more bits, returns <<quotient, remainder>>
RECURSIVE LongDivQR(_, _, _, _)
LongDivQR(q, r, p, d) == IF d = 0 THEN <<q, r>> ELSE LongDivQR(2 * q + (2 * r) \div p, (2 * r) % p, p, d - 1)
RECURSIVE BitLen(_)
BitLen(n) == IF n = 0 THEN 0 ELSE 1 + BitLen(n \div 2)
\* static_cast<size_t>(a / p) for positive finite floats, the division being a single-precision IEEE division (round to nearest even):
\* the quotient keeps 24 significant bits, so a quotient that lies less than half an ulp below an integer *is* that integer
FRatioTrunc(a, p) ==
  IF FExp(a) = 0 THEN 0
  ELSE LET d == FExp(a) - FExp(p) IN
       IF d > 24 THEN Huge
       ELSE IF d < -1 THEN 0
       ELSE LET i0 == IF d = -1 THEN <<FSig(a) \div (2 * FSig(p)), IF FSig(a) \div (2 * FSig(p)) = 0 THEN FSig(a) ELSE FSig(a) % (2 * FSig(p))>>
                         ELSE LongDivQR(FSig(a) \div FSig(p), FSig(a) % FSig(p), FSig(p), d)       \* integer part and remainder
                n == i0[1]
            IN IF d = -1 THEN (IF 2 * FSig(a) > 3 * FSig(p) /\ FALSE THEN 1 ELSE n)      \* quotient in [0.5, 1): truncates to 0 (it is never rounded up to 1: 0.99999997 is representable)
               ELSE IF n = 0 THEN 0
               ELSE LET f == 24 - BitLen(n)                          \* fractional bits a float keeps next to an integer part of that size
                        qr == LongDivQR(n, i0[2], FSig(p), IF f > 0 THEN f ELSE 0)
                        m == qr[1]  r == qr[2]
                        up == 2 * r > FSig(p) \/ (2 * r = FSig(p) /\ m % 2 = 1)
                        mr == IF up THEN m + 1 ELSE m
                    IN IF f <= 0 THEN n ELSE mr \div Pow2(f)

\* exact small non-negative integers as floats (drivers use only these as rates)
RECURSIVE Log2Floor(_)
Log2Floor(n) == IF n <= 1 THEN 0 ELSE 1 + Log2Floor(n \div 2)
FOfNat(n) ==
  IF n = 0 THEN FZero
  ELSE LET l == Log2Floor(n)
           m == (n * Pow2(23 - l)) - 8388608           \* n < 2^24
           e == 127 + l
       IN <<m % 256, (m \div 256) % 256, (m \div 65536) + (e % 2) * 128, e \div 2>>

(* ---------- byte-code strings ---------- *)
Str == Seq(Byte)
UpperCode(c) == IF c >= 97 /\ c <= 122 THEN c - 32 ELSE c        \* ::toupper in the "C" locale
Upper(s) == [i \in 1..Len(s) |-> UpperCode(s[i])]
RECURSIVE TrimRight(_)
TrimRight(s) == IF Len(s) > 0 /\ s[Len(s)] = 32 THEN TrimRight(SubSeq(s, 1, Len(s) - 1)) ELSE s
\* std::string(char*) built from a NUL terminated buffer: cut at the first 0 byte
RECURSIVE CutAtNul(_)
CutAtNul(s) == IF s = <<>> THEN <<>> ELSE IF Head(s) = 0 THEN <<>> ELSE <<Head(s)>> \o CutAtNul(Tail(s))
Spaces(n) == [i \in 1..n |-> 32]
Zeros(n)  == [i \in 1..n |-> 0]
PadTo(s, w) == IF Len(s) >= w THEN s ELSE s \o Spaces(w - Len(s))
\* decimal digits of a natural as codes ("unlabeled_point_" << i)
RECURSIVE Digits(_)
Digits(n) == IF n < 10 THEN <<48 + n>> ELSE Digits(n \div 10) \o <<48 + (n % 10)>>

\* concatenation of a sequence of sequences, by halving (recursion depth log n: TLC's evaluator is recursive itself)
RECURSIVE Flatten(_)
Flatten(ss) == IF Len(ss) = 0 THEN <<>> ELSE IF Len(ss) = 1 THEN ss[1]
               ELSE LET h == Len(ss) \div 2 IN Flatten(SubSeq(ss, 1, h)) \o Flatten(SubSeq(ss, h + 1, Len(ss)))
RECURSIVE Sum(_)
Sum(d) == IF d = <<>> THEN 0 ELSE Head(d) + Sum(Tail(d))
RECURSIVE Product(_)
Product(d) == IF d = <<>> THEN 1 ELSE Head(d) * Product(Tail(d))
MaxOf(S) == IF S = {} THEN 0 ELSE CHOOSE m \in S : \A x \in S : x <= m
IndexOfFirst(seq, P(_)) == IF \E i \in 1..Len(seq) : P(seq[i]) THEN CHOOSE i \in 1..Len(seq) : P(seq[i]) /\ \A j \in 1..(i-1) : ~P(seq[j]) ELSE 0

(* ---------- names used by the library ---------- *)
sPOINT == <<80,79,73,78,84>>
sANALOG == <<65,78,65,76,79,71>>
sFORCE_PLATFORM == <<70,79,82,67,69,95,80,76,65,84,70,79,82,77>>
sUSED == <<85,83,69,68>>
sSCALE == <<83,67,65,76,69>>
sRATE == <<82,65,84,69>>
sDATA_START == <<68,65,84,65,95,83,84,65,82,84>>
sFRAMES == <<70,82,65,77,69,83>>
sLABELS == <<76,65,66,69,76,83>>
sDESCRIPTIONS == <<68,69,83,67,82,73,80,84,73,79,78,83>>
sUNITS == <<85,78,73,84,83>>
sGEN_SCALE == <<71,69,78,95,83,67,65,76,69>>
sOFFSET == <<79,70,70,83,69,84>>
sFORMAT == <<70,79,82,77,65,84>>
sBITS == <<66,73,84,83>>
sTYPE == <<84,89,80,69>>
sZERO == <<90,69,82,79>>
sCORNERS == <<67,79,82,78,69,82,83>>
sORIGIN == <<79,82,73,71,73,78>>
sCHANNEL == <<67,72,65,78,78,69,76>>
sCAL_MATRIX == <<67,65,76,95,77,65,84,82,73,88>>
smm == <<109,109>>
sV == <<86>>
sUnlabeledPoint == <<117,110,108,97,98,101,108,101,100,95,112,111,105,110,116,95>>
sUnlabeledAnalog == <<117,110,108,97,98,101,108,101,100,95,97,110,97,108,111,103,95>>
=========================================================================
