---------------------------- MODULE C3DFormat ----------------------------
(* The C3D file format as byte sequences.                                               *)
(*   WriterModel(obj)  - ezc3d's own layout (src/Header.cpp:93-142, Parameters.cpp:227-  *)
(*                        268, Group.cpp:32-62, Parameter.cpp:43-129, Data.cpp:92-96)      *)
(*   ReaderModel(b)    - what ezc3d::c3d(path) builds from bytes (the code's reading     *)
(*                        order and quirks: leading zeros, zeroed prologue, groups indexed  *)
(*                        by id, header reconciled with the parameters, positional labels)  *)
(*   Decode(b)         - an independent decoder written from the format document: follows  *)
(*                        only the file's own pointers (header word 1, record next-offsets,*)
(*                        header word 9 / POINT:DATA_START) and returns the *content*       *)
(*   SelfConsistent(b) - the C03 predicate over a file's bytes                              *)
(* Positions are 0-based byte offsets; B(b, pos) is total (0 beyond the end) and every      *)
(* parser reports the furthest byte it needed, so "ran off the end" is explicit.            *)
EXTENDS EzObject

B(b, pos) == IF pos >= 0 /\ pos < Len(b) THEN b[pos + 1] ELSE 0
U16At(b, pos) == U16(B(b, pos), B(b, pos + 1))
S16At(b, pos) == S16(B(b, pos), B(b, pos + 1))
S8At(b, pos)  == S8(B(b, pos))
F32At(b, pos) == <<B(b, pos), B(b, pos + 1), B(b, pos + 2), B(b, pos + 3)>>
S32At(b, pos) == S32(F32At(b, pos))
BytesAt(b, pos, n) == [i \in 1..n |-> B(b, pos + i - 1)]
Abs8(x) == IF x < 0 THEN 0 - x ELSE x
BlockSize == 512

(* ======================= writer ======================= *)
Label4(s) == [i \in 1..4 |-> IF i <= Len(s) THEN s[i] ELSE 0]       \* event label: exactly four bytes, NUL padded
RepWord(w, n) == Flatten([i \in 1..n |-> LE16(w)])
HeaderBytesP(h, paddr, dstart) ==
  <<paddr, 80>> \o LE16(h.npts) \o LE16(h.meas) \o LE16(h.first + 1) \o LE16(h.last + 1) \o LE16(h.gap)
  \o LE32(h.scale) \o LE16(dstart) \o LE16(h.perframe) \o h.rate \o RepWord(h.eb1, 135)
  \o LE16(h.klp) \o LE16(h.fbkl) \o LE16(h.fcp) \o LE16(h.nev) \o LE16(h.eb2)
  \o Flatten(h.evt) \o Flatten([i \in 1..9 |-> LE16(h.evd[i])]) \o LE16(h.eb3)
  \o Flatten([i \in 1..18 |-> Label4(h.evl[i])]) \o RepWord(h.eb4, 22)
HeaderBytes(h, dstart) == HeaderBytesP(h, 2, dstart)      \* ezc3d always announces the parameters in block 2

NameLenByte(n, l) == LowByte(IF l = 1 THEN 0 - Len(n) ELSE Len(n))
HasSize(dim) == IF dim = <<>> THEN 0 ELSE Product(dim)
DimBytes(p) == IF p.dim = <<1>> THEN <<0>> ELSE <<LowByte(Len(p.dim))>> \o [i \in 1..Len(p.dim) |-> LowByte(p.dim[i])]
ElemBytes(t, x) == IF t = TBYTE THEN <<LowByte(x)>> ELSE IF t = TINT THEN LE16(x) ELSE x
ParamData(p, dstart) ==
  IF HasSize(p.dim) <= 0 THEN <<>>
  ELSE IF p.t = TCHAR
         THEN IF Len(p.dim) = 1 THEN PadTo(p.v[1], p.dim[1])
              ELSE Flatten([c \in 1..Product(Tail(p.dim)) |-> PadTo(p.v[c], p.dim[1])])
         ELSE IF p.n = sDATA_START THEN LE16(dstart)
              ELSE Flatten([c \in 1..Product(p.dim) |-> ElemBytes(p.t, p.v[c])])
ParamRec(p, gid, dstart) ==
  LET body == <<LowByte(p.t)>> \o DimBytes(p) \o ParamData(p, dstart) \o <<LowByte(Len(p.d))>> \o p.d
  IN <<NameLenByte(p.n, p.l), LowByte(gid)>> \o Upper(p.n) \o LE16(2 + Len(body)) \o body
\* placeholder groups (no name, no parameter: inserted by the reader for group ids a file does not use) are not written
IsPlaceholder(g) == g.n = <<>> /\ g.p = <<>>
GroupRec(g, gid, dstart) ==
  IF IsPlaceholder(g) THEN <<>>
  ELSE <<NameLenByte(g.n, g.l), LowByte(0 - gid)>> \o Upper(g.n) \o LE16(3 + Len(g.d)) \o <<LowByte(Len(g.d))>> \o g.d
       \o Flatten([k \in 1..Len(g.p) |-> ParamRec(g.p[k], gid, dstart)])
SectionBody(prm, grp, nblk, dstart) ==
  <<LowByte(prm.start), 80, LowByte(nblk), 84>> \o Flatten([i \in 1..Len(grp) |-> GroupRec(grp[i], i, dstart)])
\* zero padding up to the next block boundary (a full block when already on a boundary): it also is the terminator
PadLen(n) == BlockSize - (n % BlockSize)
SectionBlocks(prm, grp) == (Len(SectionBody(prm, grp, 0, 0)) + PadLen(Len(SectionBody(prm, grp, 0, 0)))) \div BlockSize
PointBytes(pt) == pt.v[1] \o pt.v[2] \o pt.v[3] \o pt.v[4]
FrameBytes(f) == Flatten([i \in 1..Len(f.p) |-> PointBytes(f.p[i])])
                 \o Flatten([s \in 1..Len(f.a) |-> Flatten([i \in 1..Len(f.a[s]) |-> f.a[s][i].v])])
DataBytes(frm) == Flatten([i \in 1..Len(frm) |-> FrameBytes(frm[i])])
\* Capacity of the format (checked by write() before anything is written): one byte for lengths, dimensions, counts of
\* dimensions and group ids; two bytes for integers, next-offsets and header words; 255 parameter blocks
ElemSize(t) == IF t = TCHAR THEN 1 ELSE IF t = TNONE THEN 10000 ELSE t
ParamRecSize(p) == 7 + Len(p.n) + (IF p.dim = <<1>> THEN 0 ELSE Len(p.dim)) + Len(p.d) + (IF p.dim = <<>> THEN 0 ELSE Product(p.dim)) * ElemSize(p.t)
ParamFits(p) ==
  /\ Len(p.n) <= 127 /\ Len(p.d) <= 255 /\ Len(p.dim) <= 7 /\ \A i \in 1..Len(p.dim) : p.dim[i] <= 255
  /\ (p.t = TINT => \A i \in 1..Len(p.v) : p.v[i] >= -32768 /\ p.v[i] <= 32767)
  /\ (p.t = TBYTE => \A i \in 1..Len(p.v) : p.v[i] >= -128 /\ p.v[i] <= 127)
  /\ ParamRecSize(p) <= 65535
SectionSize(grp) == 4 + Sum([i \in 1..Len(grp) |-> IF IsPlaceholder(grp[i]) THEN 0
                                                    ELSE 5 + Len(grp[i].n) + Len(grp[i].d) + Sum([k \in 1..Len(grp[i].p) |-> ParamRecSize(grp[i].p[k])])])
Fits(obj) ==
  /\ \A i \in 1..Len(obj.grp) : IsPlaceholder(obj.grp[i]) \/
        (i <= 127 /\ Len(obj.grp[i].n) <= 127 /\ Len(obj.grp[i].d) <= 255 /\ \A k \in 1..Len(obj.grp[i].p) : ParamFits(obj.grp[i].p[k]))
  /\ SectionSize(obj.grp) \div 512 + 1 <= 255
  /\ obj.hdr.npts <= 65535 /\ obj.hdr.meas <= 65535 /\ obj.hdr.perframe <= 65535 /\ obj.hdr.first + 1 <= 65535
  /\ (Len(obj.frm) > 0 => obj.hdr.last + 1 <= 65535)
WriterModel(obj) ==
  LET nblk == SectionBlocks(obj.prm, obj.grp)
      dstart == 2 + nblk                                   \* 1-based number of the first data block
      body == SectionBody(obj.prm, obj.grp, nblk, dstart)
  IN HeaderBytes(obj.hdr, dstart) \o body \o Zeros(PadLen(Len(body))) \o DataBytes(obj.frm)

(* ======================= record parser (shared by the reader model and the decoder) ======================= *)
\* values of a numeric parameter: n elements of t bytes each from pos
NumVals(b, pos, t, n) ==
  [c \in 1..n |-> IF t = TBYTE THEN S8At(b, pos + c - 1) ELSE IF t = TINT THEN S16At(b, pos + 2 * (c - 1)) ELSE F32At(b, pos + 4 * (c - 1))]
\* strings of a char parameter, as ezc3d re-assembles them (src/ezc3d.cpp:186-225): each single byte is read as a
\* C string (a NUL byte contributes nothing), a cell is dim[1] bytes wide, trailing spaces are removed
CellStr(b, pos, w) == TrimRight(SelectSeq(BytesAt(b, pos, w), LAMBDA x : x # 0))
StrVals(b, pos, dim) ==
  IF Len(dim) = 1 THEN (IF dim[1] = 0 THEN <<>> ELSE <<CellStr(b, pos, dim[1])>>)
  ELSE [c \in 1..Product(Tail(dim)) |-> CellStr(b, pos + (c - 1) * dim[1], dim[1])]
TypeOfByte(x) == IF x = 255 THEN TCHAR ELSE IF x \in {1, 2, 4} THEN x ELSE TNONE
\* A record starting at pos. kind: "end" (name length 0), "group", "param".
Rec(b, pos) ==
  LET nl  == S8At(b, pos)
      id  == S8At(b, pos + 1)
      n   == Abs8(nl)
      off == U16At(b, pos + 2 + n)
      offPos == pos + 2 + n
      nameRaw == BytesAt(b, pos + 2, n)
  IN IF nl = 0 THEN [kind |-> "end", pos |-> pos, end |-> pos + 1]
     ELSE IF id < 0
       THEN LET dl == B(b, offPos + 2) IN
            [kind |-> "group", pos |-> pos, id |-> 0 - id, lock |-> IF nl < 0 THEN 1 ELSE 0, nameRaw |-> nameRaw, off |-> off, offPos |-> offPos,
             desc |-> BytesAt(b, offPos + 3, dl), end |-> offPos + 3 + dl]
       ELSE LET tb == B(b, offPos + 2)
                t  == TypeOfByte(tb)
                nd == B(b, offPos + 3)
                dimRaw == BytesAt(b, offPos + 4, nd)
                dim == IF nd = 0 THEN <<1>> ELSE dimRaw               \* 0 dimensions = a scalar
                dpos == offPos + 4 + nd
                cnt == Product(dim)
                esz == IF t = TCHAR THEN 1 ELSE IF t = TNONE THEN 0 ELSE t
                dl == B(b, dpos + cnt * esz)
            IN [kind |-> "param", pos |-> pos, id |-> id, lock |-> IF nl < 0 THEN 1 ELSE 0, nameRaw |-> nameRaw, off |-> off, offPos |-> offPos,
                tbyte |-> tb, t |-> t, ndims |-> nd, dim |-> dim, dpos |-> dpos, dbytes |-> cnt * esz,
                v |-> IF t = TCHAR THEN StrVals(b, dpos, dim) ELSE IF t = TNONE THEN <<>> ELSE NumVals(b, dpos, t, cnt),
                desc |-> BytesAt(b, dpos + cnt * esz + 1, dl), end |-> dpos + cnt * esz + 1 + dl]
\* where the record says the next one starts (0 offset = last record)
NextOf(r) == IF r.off = 0 THEN 0 ELSE r.offPos + r.off

(* ======================= reader model: ezc3d::c3d(path) ======================= *)
RECURSIVE CountZeros(_, _)
CountZeros(b, k) == IF k >= Len(b) THEN k ELSE IF b[k + 1] = 0 THEN CountZeros(b, k + 1) ELSE k
ReadHeader(b, z) ==          \* z = number of zero bytes before the header
  [zeros |-> z, paddr |-> B(b, z), chk |-> B(b, z + 1), npts |-> U16At(b, z + 2), meas |-> U16At(b, z + 4),
   first |-> U16At(b, z + 6) - 1, last |-> U16At(b, z + 8) - 1, gap |-> U16At(b, z + 10), scale |-> S32At(b, z + 12),
   dstart |-> U16At(b, z + 16), perframe |-> U16At(b, z + 18), rate |-> F32At(b, z + 20),
   eb1 |-> 0, eb2 |-> S16At(b, z + 302), eb3 |-> S16At(b, z + 394), eb4 |-> 0,      \* eb1/eb4: see EbAssumption
   klp |-> U16At(b, z + 294), fbkl |-> U16At(b, z + 296), fcp |-> U16At(b, z + 298), nev |-> U16At(b, z + 300),
   evt |-> [i \in 1..18 |-> F32At(b, z + 304 + 4 * (i - 1))], evd |-> [i \in 1..9 |-> U16At(b, z + 376 + 2 * (i - 1))],
   evl |-> [i \in 1..18 |-> CutAtNul(BytesAt(b, z + 396 + 4 * (i - 1), 4))]]
\* the two multi-word reserved fields are read as one wide integer; they are 0 exactly when all their bytes are 0,
\* which is what every generated and vendor file has. Files with other content there are outside the reader model.
EbAssumption(b, z) == (\A i \in 0..269 : B(b, z + 24 + i) = 0) /\ (\A i \in 0..43 : B(b, z + 468 + i) = 0)

PlaceholderGroup == [n |-> <<>>, d |-> <<>>, l |-> 0, p |-> <<>>]
GrowTo(grp, n) == IF Len(grp) >= n THEN grp ELSE grp \o [i \in 1..(n - Len(grp)) |-> PlaceholderGroup]
\* sequential walk: the code checks that it "spontaneously" arrived where the previous record said the next one is.
\* RecSeq returns the records in file order and how the walk ended; the group table is then built declaratively
\* (TLC evaluates operator arguments lazily: an accumulating argument would build a chain as deep as the file).
RECURSIVE RecSeq(_, _, _, _)
RecSeq(b, pos, expect, fuel) ==
  IF expect = 0 THEN [out |-> "ok", recs |-> <<>>, end |-> pos]
  ELSE IF fuel = 0 THEN [out |-> "unspecified", recs |-> <<>>, end |-> pos]
  ELSE IF pos # expect THEN [out |-> "ios_failure", recs |-> <<>>, end |-> pos]
  ELSE LET r == Rec(b, pos) IN
       IF r.kind = "end" THEN [out |-> "ok", recs |-> <<>>, end |-> r.end]
       ELSE IF r.kind = "param" /\ r.t = TNONE THEN [out |-> "ios_failure", recs |-> <<>>, end |-> r.end]
       ELSE LET rest == RecSeq(b, r.end, NextOf(r), fuel - 1) IN [out |-> rest.out, recs |-> <<r>> \o rest.recs, end |-> rest.end]
\* groups are indexed by |id| (placeholders for unused ids); a repeated group record overwrites name/lock (and a non-empty
\* description); a repeated parameter name replaces the earlier one in place (src/Group.cpp:183-198)
GroupTable(recs) ==
  LET maxId == MaxOf({recs[k].id : k \in 1..Len(recs)})
      grec(id) == {k \in 1..Len(recs) : recs[k].kind = "group" /\ recs[k].id = id}
      lastG(id) == recs[MaxOf(grec(id))]
      descG(id) == LET withDesc == {k \in grec(id) : recs[k].desc # <<>>} IN IF withDesc = {} THEN <<>> ELSE CutAtNul(recs[MaxOf(withDesc)].desc)
      prec(id) == {k \in 1..Len(recs) : recs[k].kind = "param" /\ recs[k].id = id}
      pname(k) == CutAtNul(recs[k].nameRaw)
      firstOf(id) == {k \in prec(id) : \A j \in prec(id) : j < k => pname(j) # pname(k)}          \* first occurrence of each name, in file order
      lastSame(id, k) == MaxOf({j \in prec(id) : pname(j) = pname(k)})
      mk(k) == [n |-> pname(k), d |-> CutAtNul(recs[k].desc), l |-> recs[k].lock, t |-> recs[k].t, dim |-> recs[k].dim, v |-> recs[k].v]
      RECURSIVE Sorted(_)
      Sorted(S) == IF S = {} THEN <<>> ELSE LET m == CHOOSE x \in S : \A y \in S : x <= y IN <<m>> \o Sorted(S \ {m})
  IN [id \in 1..maxId |->
        [n |-> IF grec(id) = {} THEN <<>> ELSE CutAtNul(lastG(id).nameRaw),
         l |-> IF grec(id) = {} THEN 0 ELSE lastG(id).lock,
         d |-> descG(id),
         p |-> LET order == Sorted(firstOf(id)) IN [i \in 1..Len(order) |-> mk(lastSame(id, order[i]))]]]
WalkRecs(b, pos, expect, grp0, fuel) ==
  LET w == RecSeq(b, pos, expect, fuel) IN [out |-> w.out, grp |-> IF w.out = "ok" THEN GroupTable(w.recs) ELSE <<>>, end |-> w.end]

UnlabeledP(i) == sUnlabeledPoint \o Digits(i)
UnlabeledA(i) == sUnlabeledAnalog \o Digits(i)
ReadFrames(b, start, h, grp) ==
  LET np == h.npts  na == HdrAnalogs(h)  ns == h.perframe
      fsz == 16 * np + 4 * na * ns
      pl == IF np > 0 THEN GetParam(grp, sPOINT, sLABELS).v ELSE <<>>
      al == IF na > 0 THEN GetParam(grp, sANALOG, sLABELS).v ELSE <<>>
  IN [j \in 1..HdrFrames(h) |->
       LET fp == start + (j - 1) * fsz IN
       [p |-> [i \in 1..np |-> [n |-> TrimRight(IF i <= Len(pl) THEN pl[i] ELSE UnlabeledP(i - 1)),
                                 v |-> <<F32At(b, fp + 16 * (i - 1)), F32At(b, fp + 16 * (i - 1) + 4), F32At(b, fp + 16 * (i - 1) + 8), F32At(b, fp + 16 * (i - 1) + 12)>>]],
        a |-> [s \in 1..ns |-> [i \in 1..na |-> [n |-> TrimRight(IF i <= Len(al) THEN al[i] ELSE UnlabeledA(i - 1)),
                                                  v |-> F32At(b, fp + 16 * np + 4 * ((s - 1) * na + (i - 1)))]]]]]
MaxRecords == 400
ReaderModel(b) ==
  LET z == CountZeros(b, 0) IN
  IF z >= Len(b) THEN [out |-> "ios_failure"]                        \* empty or all-zero file
  ELSE IF B(b, z + 1) # 80 THEN [out |-> "ios_failure"]
  ELSE LET h0 == ReadHeader(b, z)
           ps == BlockSize * (h0.paddr - 1) + z
           start0 == B(b, ps)  chk0 == B(b, ps + 1)
           patched == chk0 = 0 /\ start0 = 0                           \* "Qualisys" zeroed prologue
           start == IF patched THEN 1 ELSE start0
           chk == IF patched THEN 80 ELSE chk0
           prm == [start |-> start, chk |-> chk, nblk |-> B(b, ps + 2), proc |-> B(b, ps + 3)]
       IN IF chk # 80 THEN [out |-> "ios_failure"]
          ELSE LET w == WalkRecs(b, ps + 4, ps + 4 + start - 1, <<>>, MaxRecords) IN
               IF w.out # "ok" THEN [out |-> w.out]
               ELSE IF ~MandHeaderTyped(w.grp) THEN [out |-> "invalid_argument"]   \* updateHeader cannot find (or cannot read as int/float) what it needs
               ELSE IF ~MandHeader(w.grp) THEN [out |-> "invalid_argument"]       \* ... or finds it without any value
               ELSE LET h1 == UpdateHeader(h0, w.grp, <<>>, FALSE)
                        dpos == ps + BlockSize * prm.nblk
                        nf == HdrFrames(h1)
                        needLabelsP == h1.npts > 0 /\ nf > 0
                    IN IF nf > 0 /\ h1.scale >= 0 THEN [out |-> "invalid_argument"]   \* integer data: "not implemented yet"
                       ELSE IF nf < 0 THEN [out |-> "unspecified"]
                       ELSE IF (h1.npts > 0 /\ ~HasT(w.grp, sPOINT, sLABELS, TCHAR)) \/ (HdrAnalogs(h1) > 0 /\ ~HasT(w.grp, sANALOG, sLABELS, TCHAR))
                              THEN [out |-> "invalid_argument"]
                       ELSE [out |-> "ok", end |-> dpos + nf * (16 * h1.npts + 4 * HdrAnalogs(h1) * h1.perframe),
                             obj |-> [hdr |-> h1, prm |-> prm, grp |-> w.grp, frm |-> ReadFrames(b, dpos, h1, w.grp)]]
\* the reader model is only meaningful when every byte it consumed exists and the reserved fields are blank
ReaderDefined(b) == LET r == ReaderModel(b) IN r.out = "ok" => (r.end <= Len(b) /\ EbAssumption(b, CountZeros(b, 0)))

(* ======================= content: what the properties compare ======================= *)
\* (string cells are space padded in the file: trailing spaces of a string value are not representable, DESIGN appendix A.6)
ContentParam(p) == [n |-> Upper(p.n), d |-> p.d, l |-> p.l, t |-> p.t, dim |-> p.dim,
                    v |-> IF p.t = TCHAR THEN [i \in 1..Len(p.v) |-> TrimRight(p.v[i])] ELSE p.v]
ContentGroup(g) == [n |-> Upper(g.n), d |-> g.d, l |-> g.l, p |-> [k \in 1..Len(g.p) |-> ContentParam(g.p[k])]]
NamedGroups(grp) == SelectSeq(grp, LAMBDA g : ~IsPlaceholder(g))
\* Parameters whose value is a function of the file layout or of the data (recomputed by every save / load), and
\* the header fields the library derives, are compared through the header/frames instead.
\* (sub-frames per frame are only meaningful with analog channels: a header that was never reconciled says 0, a loaded one 1)
ContentHdr(h) == [npts |-> h.npts, meas |-> h.meas, first |-> h.first, last |-> h.last, perframe |-> IF HdrAnalogs(h) = 0 THEN 0 ELSE h.perframe, rate |-> h.rate,
                  gap |-> h.gap, nev |-> h.nev, evt |-> h.evt, evd |-> h.evd, evl |-> h.evl, klp |-> h.klp, fbkl |-> h.fbkl, fcp |-> h.fcp,
                  nframes |-> HdrFrames(h), nanalogs |-> HdrAnalogs(h)]
DropDataStart(g) == IF g.n = sPOINT THEN [g EXCEPT !.p = SelectSeq(@, LAMBDA q : q.n # sDATA_START)] ELSE g
\* sub-frames without any channel carry no sample: a frame read from a file without analog channels has header-many empty
\* sub-frames, the frame it was saved from had none
NormFrames(frm) == [i \in 1..Len(frm) |-> [frm[i] EXCEPT !.a = IF \A s \in 1..Len(@) : @[s] = <<>> THEN <<>> ELSE @]]
Content(obj) == [hdr |-> ContentHdr(obj.hdr),
                 grp |-> LET ng == NamedGroups(obj.grp) IN [i \in 1..Len(ng) |-> DropDataStart(ContentGroup(ng[i]))],
                 frm |-> NormFrames(obj.frm)]

(* ======================= independent decoder (format document) ======================= *)
\* follows the chain of next-offsets; never assumes records are contiguous
RECURSIVE Chain(_, _, _)
Chain(b, pos, fuel) ==
  IF fuel = 0 \/ pos >= Len(b) THEN <<>>
  ELSE LET r == Rec(b, pos) IN
       IF r.kind = "end" THEN <<r>> ELSE IF r.off = 0 THEN <<r>> ELSE <<r>> \o Chain(b, NextOf(r), fuel - 1)
\* Decode follows only what the file says about itself: the parameter block address in byte 1, the chain of next-offsets,
\* group ids (records in any order), the data block number in header word 9, the frame range in header words 4-5, the counts
\* in header words 2-3 and 10. It returns the content in the shape of Content(obj), or [bad |-> reason].
Decode(b) ==
  LET z == CountZeros(b, 0)
      h == ReadHeader(b, z)
      ps == BlockSize * (h.paddr - 1) + z
      patched == B(b, ps) = 0 /\ B(b, ps + 1) = 0
      first == ps + 4 + (IF patched THEN 1 ELSE B(b, ps)) - 1
      recs == Chain(b, first, MaxRecords)
      grecs == {k \in 1..Len(recs) : recs[k].kind = "group"}
      precs == {k \in 1..Len(recs) : recs[k].kind = "param"}
      ids == {recs[k].id : k \in grecs}
      RECURSIVE SortedD(_)
      SortedD(S) == IF S = {} THEN <<>> ELSE LET m == CHOOSE x \in S : \A y \in S : x <= y IN <<m>> \o SortedD(S \ {m})
      idseq == SortedD(ids)
      gOf(id) == recs[CHOOSE k \in grecs : recs[k].id = id]
      pOf(id) == SortedD({k \in precs : recs[k].id = id})
      mkP(k) == [n |-> Upper(CutAtNul(recs[k].nameRaw)), d |-> CutAtNul(recs[k].desc), l |-> recs[k].lock, t |-> recs[k].t, dim |-> recs[k].dim, v |-> recs[k].v]
      groups == [i \in 1..Len(idseq) |->
                   [n |-> Upper(CutAtNul(gOf(idseq[i]).nameRaw)), d |-> CutAtNul(gOf(idseq[i]).desc), l |-> gOf(idseq[i]).lock,
                    p |-> LET ks == pOf(idseq[i]) IN [j \in 1..Len(ks) |-> mkP(ks[j])]]]
      find(gn, pn) == LET gi == IndexOfFirst(groups, LAMBDA g : g.n = gn) IN
                      IF gi = 0 THEN 0 ELSE IndexOfFirst(groups[gi].p, LAMBDA q : q.n = pn)
      labels(gn) == LET gi == IndexOfFirst(groups, LAMBDA g : g.n = gn)  pi == find(gn, sLABELS) IN
                    IF pi = 0 THEN <<>> ELSE IF groups[gi].p[pi].t = TCHAR THEN groups[gi].p[pi].v ELSE <<>>
      np == h.npts  ns == h.perframe  na == IF ns = 0 THEN 0 ELSE h.meas \div ns
      nf == IF np = 0 /\ na = 0 THEN 0 ELSE h.last - h.first + 1
      dpos == BlockSize * (h.dstart - 1) + z
      fsz == 16 * np + 4 * na * ns
      pl == labels(sPOINT)  al == labels(sANALOG)
      frames == [j \in 1..nf |->
                  LET fp == dpos + (j - 1) * fsz IN
                  [p |-> [i \in 1..np |-> [n |-> TrimRight(IF i <= Len(pl) THEN pl[i] ELSE UnlabeledP(i - 1)),
                                            v |-> <<F32At(b, fp + 16 * (i - 1)), F32At(b, fp + 16 * (i - 1) + 4), F32At(b, fp + 16 * (i - 1) + 8), F32At(b, fp + 16 * (i - 1) + 12)>>]],
                   a |-> [s \in 1..ns |-> [i \in 1..na |-> [n |-> TrimRight(IF i <= Len(al) THEN al[i] ELSE UnlabeledA(i - 1)),
                                                             v |-> F32At(b, fp + 16 * np + 4 * ((s - 1) * na + (i - 1)))]]]]]
  IN IF z >= Len(b) \/ B(b, z + 1) # 80 THEN [bad |-> "header key"]
     ELSE IF ~(patched \/ B(b, ps + 1) = 80) THEN [bad |-> "parameter key"]
     ELSE IF recs = <<>> \/ recs[Len(recs)].kind # "end" THEN [bad |-> "chain"]
     ELSE IF \E k \in precs : recs[k].t = TNONE \/ recs[k].id \notin ids THEN [bad |-> "parameter type / group"]
     ELSE IF nf < 0 \/ dpos + nf * fsz > Len(b) THEN [bad |-> "data"]
     ELSE [hdr |-> ContentHdr(h), grp |-> [i \in 1..Len(groups) |-> DropDataStart(groups[i])], frm |-> NormFrames(frames)]

(* ======================= encoder over layout variants (generator for C02 / C04 / C12 / C16) ======================= *)
\* lay == [zeros, paddr, zeroPrologue, gids, rev, scalarAsArray]: zero bytes before the header, parameter block number (2 or 3),
\* zeroed parameter-section prologue, file group id of the i-th group (any injective assignment, sparse allowed), groups written
\* in reverse order, 1-element parameters written with one dimension instead of as scalars.
DefaultLayout(n) == [zeros |-> 0, paddr |-> 2, zeroPrologue |-> FALSE, gids |-> [i \in 1..n |-> i], rev |-> FALSE, scalarAsArray |-> FALSE]
DimBytesL(p, lay) == IF p.dim = <<1>> /\ ~lay.scalarAsArray THEN <<0>> ELSE <<LowByte(Len(p.dim))>> \o [i \in 1..Len(p.dim) |-> LowByte(p.dim[i])]
\* a foreign writer stores names as they are (no upper-casing) and any 16-bit DATA_START
ParamRecL(p, gid, dstart, lay) ==
  LET body == <<LowByte(p.t)>> \o DimBytesL(p, lay) \o ParamData(p, dstart) \o <<LowByte(Len(p.d))>> \o p.d
  IN <<NameLenByte(p.n, p.l), LowByte(gid)>> \o p.n \o LE16(2 + Len(body)) \o body
GroupRecL(g, gid, dstart, lay) ==
  <<NameLenByte(g.n, g.l), LowByte(0 - gid)>> \o g.n \o LE16(3 + Len(g.d)) \o <<LowByte(Len(g.d))>> \o g.d
  \o Flatten([k \in 1..Len(g.p) |-> ParamRecL(g.p[k], gid, dstart, lay)])
BodyL(obj, lay, nblk, dstart) ==
  LET n == Len(obj.grp)  ord == [k \in 1..n |-> IF lay.rev THEN n + 1 - k ELSE k] IN
  (IF lay.zeroPrologue THEN <<0, 0>> ELSE <<1, 80>>) \o <<LowByte(nblk), 84>>
  \o Flatten([k \in 1..n |-> GroupRecL(obj.grp[ord[k]], lay.gids[ord[k]], dstart, lay)])
EncodeWith(obj, lay) ==
  LET len0 == Len(BodyL(obj, lay, 0, 0))
      nblk == (len0 + PadLen(len0)) \div BlockSize
      dstart == lay.paddr + nblk
      body == BodyL(obj, lay, nblk, dstart)
  IN Zeros(lay.zeros) \o HeaderBytesP(obj.hdr, lay.paddr, dstart) \o Zeros(BlockSize * (lay.paddr - 2))
     \o body \o Zeros(PadLen(Len(body))) \o DataBytes(obj.frm)

(* ======================= C03: a saved file is self-consistent ======================= *)
\* bytes b were written for an object whose content is c (= Content(obj)); every pointer is checked against where the sections
\* really are, using only b
SCReport(b, obj) ==
  LET h == ReadHeader(b, 0)
      ps == BlockSize * (h.paddr - 1)
      nblk == B(b, ps + 2)
      recs == Chain(b, ps + 4, MaxRecords)
      last == recs[Len(recs)]
      dataPos == BlockSize * (h.dstart - 1)
      prms == {k \in 1..Len(recs) : recs[k].kind = "param"}
      grps == {k \in 1..Len(recs) : recs[k].kind = "group"}
      isDS(k) == recs[k].kind = "param" /\ Upper(CutAtNul(recs[k].nameRaw)) = sDATA_START
                 /\ \E g \in grps : recs[g].id = recs[k].id /\ Upper(CutAtNul(recs[g].nameRaw)) = sPOINT
      nfr == Len(obj.frm)
  IN [ keys      |-> B(b, 0) = 2 /\ B(b, 1) = 80 /\ B(b, ps + 1) = 80,                          \* parameter block address, both key bytes
       endmark   |-> Len(recs) >= 1 /\ last.kind = "end",                                         \* the chain ends in a terminator
       offsets   |-> \A k \in 1..(Len(recs) - 1) : NextOf(recs[k]) = recs[k].end /\ NextOf(recs[k]) = recs[k + 1].pos,   \* every next-offset exact
       blocks    |-> ps + BlockSize * nblk = dataPos /\ dataPos % BlockSize = 0,                  \* block count exact = header data start
       padding   |-> last.pos < dataPos /\ \A i \in last.pos..(dataPos - 1) : B(b, i) = 0,      \* terminator + zero padding up to the data
       datastart |-> \E k \in prms : isDS(k) /\ recs[k].t = TINT /\ recs[k].v = <<h.dstart>>,  \* POINT:DATA_START points at the data
       upper     |-> \A k \in prms \cup grps : Upper(recs[k].nameRaw) = recs[k].nameRaw,        \* names stored upper-case
       locks     |-> TRUE,
       counts    |-> /\ h.npts = Val1(obj.grp, sPOINT, sUSED)                                      \* header counts agree with the parameters
                     /\ HdrAnalogs(h) * h.perframe = h.meas
                     /\ (h.perframe >= 1 /\ Has1(obj.grp, sANALOG, sUSED, TINT) => HdrAnalogs(h) = Val1(obj.grp, sANALOG, sUSED))
                     /\ RateKey(h.rate) = RateKey(Val1(obj.grp, sPOINT, sRATE)),
       frames    |-> (nfr > 0 => h.last - h.first + 1 = nfr) /\ Val1(obj.grp, sPOINT, sFRAMES) = nfr,
       datasize  |-> Len(b) = dataPos + nfr * (16 * h.npts + 4 * h.meas),                          \* the data section has exactly the announced size
       floatmark |-> FIsNegative(F32At(b, 12)) ]                                                   \* float-format marker: a negative scale factor
SelfConsistent(b, obj) == LET r == SCReport(b, obj) IN \A f \in DOMAIN r : r[f]
\* known finding C03/scale-word: ezc3d stores the marker as the integer -1 (bytes FF FF FF FF), which is a NaN when read as the
\* REAL the format prescribes; the carve-out is exactly that bit pattern
KF_ScaleWordIsIntMinusOne(b) == F32At(b, 12) = <<255, 255, 255, 255>>
SelfConsistentKF(b, obj) ==
  LET b2 == [i \in 1..Len(b) |-> IF i \in 13..16 /\ KF_ScaleWordIsIntMinusOne(b) THEN FMinusOne[i - 12] ELSE b[i]]
  IN SelfConsistent(b2, obj)
=========================================================================
