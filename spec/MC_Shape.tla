---------------------------- MODULE MC_Shape ----------------------------
(* Bounded instance of EzApi for C05 / C07 / C10 (and the shape part of C06, C13):       *)
(* every interleaving of declare-point, declare-channel, set-rate, append / replace /      *)
(* extend frame (conforming and each documented deviation), add-point-column and            *)
(* add-channel-column. Every transition is exported for replay on the real object.          *)
EXTENDS EzApi, Json
CONSTANTS NP, NA, Quick

p1 == <<112,49>>  p2 == <<112,50>>  p3 == <<112,51>>
a1 == <<97,49>>   a2 == <<97,50>>
MC_PNames == IF NP >= 3 THEN {p1, p2, p3} ELSE IF NP = 2 THEN {p1, p2} ELSE {p1}
MC_ANames == IF NA >= 2 THEN {a1, a2} ELSE IF NA = 1 THEN {a1} ELSE {}
MC_PRates == {FZero, FOfNat(100)}
MC_ARates == {FZero, FOfNat(50), FOfNat(100), FOfNat(200), FOfNat(300)}     \* sub-frame ratios 0 (analog rate below the point rate), 1, 2, 3 and their changes in both directions
MC_FrameKinds == {"conf", "lesspt", "morept", "rename", "lessch", "morech", "empty", "undeclA", "undeclP", "lessch0", "morech0"}
MC_ColKinds == {"ok1", "ok2", "dup", "newdup", "short", "none", "fewer", "more", "zero", "lesssub", "moresub"}
MC_Tags == {1}
MC_UserParams == <<>>
MC_LockNames == {}
MC_CallerIds == {}

MC_Files == <<>>
MC_AliasGroups == {}
Dump == ~Sampled(Len(hist)) \/ PrintT(ToJson([path |-> hist, op |-> lastOp', out |-> lastOut', sets |-> lastSets', post |-> Abs(obj')]))
=========================================================================
