CONSTANTS
  PNames <- T_Empty
  ANames <- T_Empty
  PRates <- T_Empty
  ARates <- T_Empty
  MaxFrames = 100000
  MaxPts = 100000
  MaxCh = 100000
  FrameKinds <- T_Empty
  ColKinds <- T_Empty
  Tags <- T_Empty
  IdxSlack = 0
  UserParams <- T_EmptySeq
  LockNames <- T_Empty
  CallerIds <- T_Empty
  Files <- T_EmptySeq
  AliasGroups <- MC_AliasGroups
  WithAlias = FALSE
  WithEdits = FALSE
  WithReload = FALSE
  Lookups = FALSE
  Phased = FALSE
INIT TraceInit
NEXT TraceStep
INVARIANT Conforms
INVARIANT MandInv
INVARIANT TraceAgreement
INVARIANT TraceIO
PROPERTY RefusedUnchanged
PROPERTY FrameStoreOK
PROPERTY ColumnsOK
POSTCONDITION TraceAccepted
CHECK_DEADLOCK FALSE
