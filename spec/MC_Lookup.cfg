CONSTANTS
  NPts = 2
  NFr = 1
  PNames <- MC_PNames
  ANames <- MC_ANames
  PRates <- MC_PRates
  ARates <- MC_ARates
  MaxFrames = 1
  MaxPts = 2
  MaxCh = 2
  FrameKinds <- MC_FrameKinds
  ColKinds <- MC_ColKinds
  Tags <- MC_Tags
  IdxSlack = 1
  UserParams <- MC_UserParams
  LockNames <- MC_LockNames
  CallerIds <- MC_CallerIds
  Files <- MC_Files
  AliasGroups <- MC_AliasGroups
  WithAlias = FALSE
  WithEdits = FALSE
  WithReload = FALSE
  Lookups = TRUE
  Phased = TRUE
INIT Init
NEXT MCNext
VIEW View
INVARIANT LookupConsistent
INVARIANT NamesTrimmed
INVARIANT MandInv
CHECK_DEADLOCK FALSE
