------------------------------ MODULE EzApi ------------------------------
(* One action per public mutating call of ezc3d::c3d (src/ezc3d.cpp:252-403), on one   *)
(* object. Each action has the same internal structure as the code: guard sequence in   *)
(* the code's order (which fixes the exception class), then store, then the updaters.   *)
(* The concrete call (name + arguments in the harness' JSON vocabulary) is recorded in  *)
(* lastOp, its outcome class in lastOut; hist is the path from Init (hidden by VIEW).   *)
(* A refused call is UNCHANGED obj by construction - that is what the code is held to.   *)
EXTENDS C3DFormat, TLC, IOUtils

CONSTANTS
  PNames, ANames,        \* point / channel names (code sequences) that may be declared
  PRates, ARates,        \* F32 patterns POINT:RATE / ANALOG:RATE may be set to
  MaxFrames, MaxPts, MaxCh,
  FrameKinds,            \* subset of {"conf","lesspt","morept","rename","lessch","morech","empty","nopts","noan"}
  ColKinds,              \* subset of the column-adder argument shapes, see PointColsArg / AnalogColsArg
  Tags,                  \* payload tags: frames with different tags differ in every value
  IdxSlack,              \* indexed frame() may target 0 .. Len(frm)+IdxSlack-1
  UserParams,            \* sequence of [g, p] records: the SetParam alphabet (besides the two rates)
  LockNames,             \* group names lockGroup/unlockGroup are tried with
  Files,                 \* sequence of byte sequences that may be loaded (spec-generated files); <<>> switches loading off
  AliasGroups,           \* group names c3d::parameter is called with while its argument is a parameter of the object itself
  WithAlias,             \* TRUE: frames of the object itself are handed back to frame()
  WithEdits,             \* TRUE: stored frames are edited in place through the public non-const accessors
  WithReload,            \* TRUE: save + load (through the file format model) is an action
  Lookups,               \* TRUE: the read-only look-ups of C11 are explored in every state
  CallerIds,             \* identities of caller-side frame objects (C08); {} switches them off
  Phased                 \* TRUE: declarations and rates only before any frame exists, frames only once points, channels and
                         \* both rates are declared (keeps the frame-centred slices small); FALSE: free interleaving

VARIABLES obj, callers, hist, lastOp, lastOut, lastSets, lastRes,
          inScope        \* C05's per-frame clauses apply (FALSE once a column was added over an empty gap frame, DESIGN appendix A.10)
vars == <<obj, callers, hist, lastOp, lastOut, lastSets, lastRes, inScope>>
View == <<obj, callers, inScope>>

(* ---------- payloads ---------- *)
PtVal(tag, i, c) == <<tag, i, c, 64>>                       \* some float around 2..3, distinct per (tag, point, component)
ChVal(tag, s, i) == <<tag, i, 16 + s, 65>>
MkPoint(name, tag, i) == [n |-> name, v |-> <<PtVal(tag, i, 1), PtVal(tag, i, 2), PtVal(tag, i, 3), PtVal(tag, i, 4)>>]
MkChannel(name, tag, s, i) == [n |-> name, v |-> ChVal(tag, s, i)]
MkFrame(pn, nsub, an, tag) ==
  [p |-> [i \in 1..Len(pn) |-> MkPoint(pn[i], tag, i)],
   a |-> [s \in 1..nsub |-> [i \in 1..Len(an) |-> MkChannel(an[i], tag, s, i)]]]
XName == <<88>>   YName == <<89>>
ZeroPoint(name) == [n |-> name, v |-> <<FZero, FZero, FZero, FZero>>]
ZeroChannel(name) == [n |-> name, v |-> FZero]

(* ---------- declared shape ---------- *)
G == obj.grp
\* (total: an object loaded from a file may lack any of them - "Optotrak" files carry an ANALOG group without parameters)
PLabels == IF HasT(G, sPOINT, sLABELS, TCHAR) THEN GetParam(G, sPOINT, sLABELS).v ELSE <<>>
ALabels == IF HasT(G, sANALOG, sLABELS, TCHAR) THEN GetParam(G, sANALOG, sLABELS).v ELSE <<>>
PUsed == IF Has1(G, sPOINT, sUSED, TINT) THEN Val1(G, sPOINT, sUSED) ELSE 0
AUsed == IF Has1(G, sANALOG, sUSED, TINT) THEN Val1(G, sANALOG, sUSED) ELSE 0
\* The frame and column mutators end in the updaters, which rewrite the derived POINT / ANALOG parameters when the number of
\* points / channels changes: an object that lacks what they are going to read (only a loaded file can) is refused before anything
\* is touched (C10; checkUpdatable in src/ezc3d.cpp). pc / ac: the call may change the number of points / channels.
UpdatableFor(pc, ac) ==
  /\ Has1(G, sPOINT, sFRAMES, TINT) /\ Has1(G, sPOINT, sUSED, TINT) /\ Has1(G, sANALOG, sUSED, TINT)
  /\ (pc => /\ HasParam(G, sPOINT, sDESCRIPTIONS) /\ HasParam(G, sPOINT, sUNITS)
            /\ IF Len(obj.frm) > 0 THEN HasParam(G, sPOINT, sLABELS) ELSE HasT(G, sPOINT, sLABELS, TCHAR))
  /\ (ac => /\ HasParam(G, sANALOG, sDESCRIPTIONS)
            /\ IF Len(obj.frm) > 0 THEN HasParam(G, sANALOG, sLABELS) ELSE HasT(G, sANALOG, sLABELS, TCHAR)
            /\ HasT(G, sANALOG, sSCALE, TFLOAT) /\ HasT(G, sANALOG, sOFFSET, TINT) /\ HasT(G, sANALOG, sUNITS, TCHAR))
NF == Len(obj.frm)
DeclSubs == IF AUsed > 0 THEN obj.hdr.perframe ELSE 0
ButLast(s) == SubSeq(s, 1, Len(s) - 1)

\* The caller may name points / channels with trailing spaces; a Frame object holds the trimmed names
\* (Point::name / Channel::name and the naming constructors). NormFrame is the object the library sees.
PadNames(f) == [p |-> [i \in 1..Len(f.p) |-> [f.p[i] EXCEPT !.n = @ \o <<32>>]],
                a |-> [s \in 1..Len(f.a) |-> [i \in 1..Len(f.a[s]) |-> [f.a[s][i] EXCEPT !.n = @ \o <<32, 32>>]]]]
NormFrame(f) == [p |-> [i \in 1..Len(f.p) |-> [f.p[i] EXCEPT !.n = TrimRight(@)]],
                 a |-> [s \in 1..Len(f.a) |-> [i \in 1..Len(f.a[s]) |-> [f.a[s][i] EXCEPT !.n = TrimRight(@)]]]]
FrameOfKind(kind, tag) ==
  CASE kind = "conf"   -> MkFrame(PLabels, DeclSubs, ALabels, tag)
    [] kind = "lesspt" -> MkFrame(ButLast(PLabels), DeclSubs, ALabels, tag)
    [] kind = "morept" -> MkFrame(Append(PLabels, XName), DeclSubs, ALabels, tag)
    [] kind = "rename" -> MkFrame(<<XName>> \o Tail(PLabels), DeclSubs, ALabels, tag)
    [] kind = "lessch" -> MkFrame(PLabels, DeclSubs, ButLast(ALabels), tag)
    [] kind = "morech" -> MkFrame(PLabels, DeclSubs, Append(ALabels, YName), tag)
    [] kind = "lessch0"-> MkFrame(PLabels, 1, ButLast(ALabels), tag)        \* channels declared but the rate ratio is below 1 (0 sub-frames per frame):
    [] kind = "morech0"-> MkFrame(PLabels, 1, Append(ALabels, YName), tag)   \* a frame with one sub-frame and a wrong channel count is still refused
    [] kind = "empty"  -> EmptyFrame
    [] kind = "padded" -> PadNames(MkFrame(PLabels, DeclSubs, ALabels, tag))                       \* names given with a trailing space (setter)
    [] kind = "ctorpad"-> PadNames(MkFrame(PLabels, DeclSubs, ALabels, tag)) @@ [ctor |-> 1]     \* same, through the naming constructors
    [] kind = "dupnames"-> MkFrame(<<XName, XName>>, 0, <<>>, tag)             \* two points of the same name (nothing declared): by-name look-up returns the first
    [] kind = "undeclA"-> MkFrame(PLabels, 1, <<YName>>, tag)               \* analog samples although no channel is declared
    [] kind = "undeclP"-> MkFrame(<<XName>>, DeclSubs, ALabels, tag)         \* a point although no point is declared
    [] kind = "nopts"  -> MkFrame(<<>>, DeclSubs, ALabels, tag)
    [] kind = "noan"   -> MkFrame(PLabels, 0, <<>>, tag)
    \* an occluded marker as applications store it: NaN coordinates (quiet NaN 7FC00000, and a signalling one with a payload);
    \* values are opaque bit patterns for the library, in memory and in the file
    [] kind = "nan"    -> LET f == MkFrame(PLabels, DeclSubs, ALabels, tag) IN
                          [f EXCEPT !.p[1].v = <<<<0, 0, 192, 127>>, <<1, 0, 128, 255>>, @[3], <<0, 0, 128, 191>>>>]
KindApplies(kind) ==
  CASE kind \in {"lesspt", "rename"} -> PUsed >= 1 /\ Len(PLabels) = PUsed
    [] kind = "morept" -> PUsed >= 1
    [] kind \in {"lessch", "morech"} -> AUsed >= 1 /\ DeclSubs >= 1
    [] kind \in {"lessch0", "morech0"} -> AUsed >= 1 /\ obj.hdr.perframe = 0
    [] kind \in {"padded", "ctorpad", "nan"} -> PUsed >= 1
    [] kind = "dupnames" -> PUsed = 0 /\ PLabels = <<>>
    [] kind = "undeclA" -> AUsed = 0 /\ ALabels = <<>>
    [] kind = "undeclP" -> PUsed = 0 /\ PLabels = <<>>
    [] kind = "nopts" -> PUsed >= 1 /\ AUsed >= 1 /\ DeclSubs >= 1
    [] kind = "noan" -> PUsed >= 1 /\ AUsed >= 1 /\ DeclSubs >= 1
    [] OTHER -> TRUE

(* ---------- c3d::frame : guards in the code's order (src/ezc3d.cpp:282-313) ---------- *)
FrameOutcome(f) ==
  IF PUsed # 0 /\ Len(f.p) # PUsed THEN "runtime_error"
  ELSE IF \E i \in 1..Len(PLabels) : PLabels[i] \notin SeqToSet(PointNames(f)) THEN "invalid_argument"
  ELSE IF Len(f.p) > 0 /\ FIsZero(Val1(G, sPOINT, sRATE)) THEN "runtime_error"
  ELSE IF Len(f.a) > 0 /\ FIsZero(Val1(G, sANALOG, sRATE)) THEN "runtime_error"
  ELSE IF ~Has1(G, sANALOG, sUSED, TINT) THEN "invalid_argument"          \* ANALOG:USED is read here ("Optotrak" files have none)
  ELSE IF Len(f.a) # 0 /\ ~(AUsed = 0 /\ obj.hdr.perframe = 0) /\ Len(f.a[1]) # AUsed THEN "runtime_error"
  ELSE IF ~UpdatableFor(Len(f.p) # PUsed, (IF Len(f.a) = 0 THEN 0 ELSE Len(f.a[1])) # AUsed) THEN "invalid_argument"
  ELSE "ok"
\* Data::frame (src/Data.cpp:130-139): append / replace / extend with empty frames
Store(frm, f, idx) ==
  IF idx = -1 THEN Append(frm, f)
  ELSE IF idx < Len(frm) THEN [frm EXCEPT ![idx + 1] = f]
  ELSE [i \in 1..(idx + 1) |-> IF i <= Len(frm) THEN frm[i] ELSE IF i = idx + 1 THEN f ELSE EmptyFrame]

\* the frame carries exactly the declared shape (names in declared order, declared sub-frame count and channels)
Conforming(f) ==
  /\ PointNames(f) = PLabels /\ Len(f.p) = PUsed
  /\ Len(f.a) = DeclSubs
  /\ \A s \in 1..Len(f.a) : Len(f.a[s]) = AUsed
HasGap == \E i \in 1..Len(obj.frm) : ~Filled(obj.frm[i])
Done(o, op, out, sets) ==
  /\ obj' = o /\ lastOp' = op /\ lastOut' = out /\ lastSets' = sets /\ hist' = Append(hist, op) /\ lastRes' = <<>>
  /\ inScope' = (inScope /\ ~(out = "ok" /\ op.op \in {"DeclPoint", "DeclAnalog", "AddPointCols", "AddAnalogCols"} /\ HasGap)
                          /\ ~(out = "ok" /\ op.op = "AddFrame" /\ ~Conforming(IF "c" \in DOMAIN op THEN callers[op.c] ELSE NormFrame(op.frame)))
                          /\ ~(out = "ok" /\ op.op = "AddFrameAlias" /\ ~Conforming(obj.frm[op.src + 1]))
                          \* the caller overwrote a derived POINT / ANALOG parameter (anything but the two rates) by hand: the declared
                          \* shape is then whatever the caller says, C05's clauses are not evaluated for the rest of the history
                          /\ ~(out = "ok" /\ op.op = "SetParam" /\ op.g \in {sPOINT, sANALOG} /\ op.p.n # sRATE
                                /\ op.p.n \in {sUSED, sFRAMES, sLABELS, sDESCRIPTIONS, sUNITS, sSCALE, sOFFSET, sDATA_START}))

AddFrameF(f, idx, op) ==
  LET out == FrameOutcome(f) IN
  IF out # "ok" THEN Done(obj, op, out, <<>>)
  ELSE /\ Done(UpdateParameters(obj, Store(obj.frm, f, idx), <<>>, <<>>), op, "ok", <<>>)

IdxRange == {-1} \cup 0..(NF + IdxSlack - 1)
\* tag 0 = automatic: the payload is derived from the data-set size and the target, so that every stored frame of a history
\* differs from the others without a further choice dimension
AutoTag(tag, idx) == IF tag # 0 THEN tag ELSE IF idx = -1 THEN NF + 1 ELSE NF + 5 + idx
AddFrame(kind, tag, idx) ==
  /\ KindApplies(kind)
  /\ (idx = -1 => NF < MaxFrames) /\ idx < MaxFrames
  /\ LET arg == FrameOfKind(kind, AutoTag(tag, idx)) IN
     AddFrameF(NormFrame(arg), idx, [op |-> "AddFrame", idx |-> idx, frame |-> arg]) /\ UNCHANGED callers

(* ---------- c3d::point(name) / point(frames) (src/ezc3d.cpp:320-356) ---------- *)
\* validation of every new column precedes any mutation; the first failing check decides the class
PointColsOutcome(frames) ==
  IF Len(frames) = 0 \/ Len(frames) # NF THEN "invalid_argument"
  ELSE IF Len(frames[1].p) = 0 THEN "invalid_argument"
  ELSE IF \E i \in 1..Len(frames[1].p) : frames[1].p[i].n \in SeqToSet(PLabels) THEN "invalid_argument"
  ELSE IF \E f \in 1..Len(frames) : Len(frames[f].p) < Len(frames[1].p) THEN "out_of_range"
  ELSE IF ~UpdatableFor(TRUE, FALSE) THEN "invalid_argument"
  ELSE "ok"
AddPointColsF(frames, op) ==
  LET out == PointColsOutcome(frames) IN
  IF out # "ok" THEN Done(obj, op, out, <<>>)
  ELSE LET k == Len(frames[1].p)
           frm2 == [f \in 1..NF |-> [obj.frm[f] EXCEPT !.p = @ \o SubSeq(frames[f].p, 1, k)]]
       IN Done(UpdateParameters(obj, frm2, <<>>, <<>>), op, "ok", <<>>)
DeclPoint(name) ==
  /\ Len(PLabels) < MaxPts
  /\ (NF = 0 => TrimRight(name) \notin SeqToSet(PLabels))   \* re-declaring a name on an object without frames is contract-silent: not generated
  /\ LET op == [op |-> "DeclPoint", n |-> name] IN
     IF NF > 0
       THEN AddPointColsF([f \in 1..NF |-> [p |-> <<ZeroPoint(TrimRight(name))>>, a |-> <<>>]], op)
       ELSE IF ~UpdatableFor(TRUE, FALSE) THEN Done(obj, op, "invalid_argument", <<>>)
       ELSE Done(UpdateParameters(obj, obj.frm, <<TrimRight(name)>>, <<>>), op, "ok", <<>>)
  /\ UNCHANGED callers

\* argument shapes for point(frames); n = NF
NeedsTwo(kind) == kind \in {"ok2", "short", "newdup"}
PointColsArg(kind, tag, nm, nm2) ==
  LET one(name, t) == [p |-> <<MkPoint(name, t, 9)>>, a |-> <<>>]
      two(n1, n2, t) == [p |-> <<MkPoint(n1, t, 8), MkPoint(n2, t, 9)>>, a |-> <<>>] IN
  CASE kind = "ok1"    -> [f \in 1..NF |-> one(nm, tag)]
    [] kind = "ok2"    -> [f \in 1..NF |-> two(nm, nm2, tag)]
    [] kind = "dup"    -> [f \in 1..NF |-> one(PLabels[1], tag)]
    [] kind = "newdup" -> [f \in 1..NF |-> two(nm, PLabels[1], tag)]
    [] kind = "short"  -> [f \in 1..NF |-> IF f = NF THEN one(nm, tag) ELSE two(nm, nm2, tag)]
    [] kind = "none"   -> [f \in 1..NF |-> EmptyFrame]
    [] kind = "fewer"  -> [f \in 1..(NF - 1) |-> one(nm, tag)]
    [] kind = "more"   -> [f \in 1..(NF + 1) |-> one(nm, tag)]
    [] kind = "zero"   -> <<>>
PointColsApplies(kind, nm, nm2) ==
  /\ TrimRight(nm) \notin SeqToSet(PLabels)
  /\ IF kind \in {"ok2", "short"} THEN TrimRight(nm2) \notin SeqToSet(PLabels) /\ nm2 # nm ELSE nm2 = nm
  /\ CASE kind \in {"dup", "newdup"} -> Len(PLabels) >= 1 /\ NF >= 1
       [] kind = "short" -> NF >= 2
       [] kind = "fewer" -> NF >= 1
       [] kind = "zero"  -> TRUE
       [] kind = "more"  -> TRUE
       [] OTHER -> NF >= 1
  /\ (kind \in {"ok2", "short"} => Len(PLabels) + 2 <= MaxPts)
AddPointCols(kind, tag, nm, nm2) ==
  /\ Len(PLabels) < MaxPts /\ PointColsApplies(kind, nm, nm2)
  /\ LET frames == PointColsArg(kind, tag, nm, nm2) IN
     AddPointColsF([f \in 1..Len(frames) |-> NormFrame(frames[f])], [op |-> "AddPointCols", frames |-> frames])
  /\ UNCHANGED callers

(* ---------- c3d::analog(name) / analog(frames) (src/ezc3d.cpp:358-403) ---------- *)
AnalogColsOutcome(frames) ==
  IF Len(frames) = 0 \/ Len(frames) # NF THEN "invalid_argument"
  ELSE IF Len(frames[1].a) # obj.hdr.perframe THEN "invalid_argument"
  ELSE IF Len(frames[1].a) = 0 THEN "invalid_argument"
  ELSE IF Len(frames[1].a[1]) = 0 THEN "invalid_argument"
  ELSE IF \E i \in 1..Len(frames[1].a[1]) : frames[1].a[1][i].n \in SeqToSet(ALabels) THEN "invalid_argument"
  ELSE IF \E f \in 1..NF : Len(frames[f].a) < obj.hdr.perframe \/ Len(obj.frm[f].a) < obj.hdr.perframe THEN "out_of_range"
  ELSE IF \E f \in 1..NF, s \in 1..obj.hdr.perframe : Len(frames[f].a[s]) < Len(frames[1].a[1]) THEN "out_of_range"
  ELSE IF ~UpdatableFor(FALSE, TRUE) THEN "invalid_argument"
  ELSE "ok"
AddAnalogColsF(frames, op) ==
  LET out == AnalogColsOutcome(frames) IN
  IF out # "ok" THEN Done(obj, op, out, <<>>)
  ELSE LET k == Len(frames[1].a[1])
           nsub == obj.hdr.perframe
           frm2 == [f \in 1..NF |-> [obj.frm[f] EXCEPT !.a =
                     [s \in 1..Len(@) |-> IF s <= nsub THEN @[s] \o SubSeq(frames[f].a[s], 1, k) ELSE @[s]]]]
       IN Done(UpdateParameters(obj, frm2, <<>>, <<>>), op, "ok", <<>>)
DeclAnalog(name) ==
  /\ Len(ALabels) < MaxCh
  /\ (NF = 0 => TrimRight(name) \notin SeqToSet(ALabels))
  /\ LET op == [op |-> "DeclAnalog", n |-> name] IN
     IF NF > 0
       THEN AddAnalogColsF([f \in 1..NF |-> [p |-> <<>>, a |-> [s \in 1..obj.hdr.perframe |-> <<ZeroChannel(TrimRight(name))>>]]], op)
       ELSE IF ~UpdatableFor(FALSE, TRUE) THEN Done(obj, op, "invalid_argument", <<>>)
       ELSE Done(UpdateParameters(obj, obj.frm, <<>>, <<TrimRight(name)>>), op, "ok", <<>>)
  /\ UNCHANGED callers

AnalogColsArg(kind, tag, nm, nm2) ==
  LET ns == obj.hdr.perframe
      one(name, t, k) == [p |-> <<>>, a |-> [s \in 1..k |-> <<MkChannel(name, t, s, 9)>>]]
      two(n1, n2, t, k) == [p |-> <<>>, a |-> [s \in 1..k |-> <<MkChannel(n1, t, s, 8), MkChannel(n2, t, s, 9)>>]] IN
  CASE kind = "ok1"    -> [f \in 1..NF |-> one(nm, tag, ns)]
    [] kind = "ok2"    -> [f \in 1..NF |-> two(nm, nm2, tag, ns)]
    [] kind = "dup"    -> [f \in 1..NF |-> one(ALabels[1], tag, ns)]
    [] kind = "newdup" -> [f \in 1..NF |-> two(nm, ALabels[1], tag, ns)]
    [] kind = "short"  -> [f \in 1..NF |-> IF f = NF THEN one(nm, tag, ns) ELSE two(nm, nm2, tag, ns)]
    [] kind = "none"   -> [f \in 1..NF |-> [p |-> <<>>, a |-> [s \in 1..ns |-> <<>>]]]
    [] kind = "lesssub"-> [f \in 1..NF |-> one(nm, tag, ns - 1)]
    [] kind = "moresub"-> [f \in 1..NF |-> one(nm, tag, ns + 1)]
    [] kind = "fewer"  -> [f \in 1..(NF - 1) |-> one(nm, tag, ns)]
    [] kind = "more"   -> [f \in 1..(NF + 1) |-> one(nm, tag, ns)]
    [] kind = "zero"   -> <<>>
AnalogColsApplies(kind, nm, nm2) ==
  /\ TrimRight(nm) \notin SeqToSet(ALabels)
  /\ IF kind \in {"ok2", "short"} THEN TrimRight(nm2) \notin SeqToSet(ALabels) /\ nm2 # nm ELSE nm2 = nm
  /\ CASE kind \in {"dup", "newdup"} -> Len(ALabels) >= 1 /\ NF >= 1
       [] kind = "short" -> NF >= 2
       [] kind = "fewer" -> NF >= 1
       [] kind = "lesssub" -> NF >= 1 /\ obj.hdr.perframe >= 1
       [] kind \in {"zero", "more"} -> TRUE
       [] OTHER -> NF >= 1
  /\ (kind \in {"ok2", "short"} => Len(ALabels) + 2 <= MaxCh)
AddAnalogCols(kind, tag, nm, nm2) ==
  /\ Len(ALabels) < MaxCh /\ AnalogColsApplies(kind, nm, nm2)
  /\ LET frames == AnalogColsArg(kind, tag, nm, nm2) IN
     AddAnalogColsF([f \in 1..Len(frames) |-> NormFrame(frames[f])], [op |-> "AddAnalogCols", frames |-> frames])
  /\ UNCHANGED callers

(* ---------- c3d::parameter / lockGroup / unlockGroup (src/ezc3d.cpp:252-280) ---------- *)
\* the caller builds a Parameter with a sequence of typed sets; a refused set leaves it as it was
RECURSIVE ApplySets(_, _)
ApplySets(p, sets) ==
  IF sets = <<>> THEN [p |-> p, outs |-> <<>>]
  ELSE LET s == Head(sets)
           out == SetOutcome(s.v, s.dim)
           p1 == IF out # "ok" THEN p
                 ELSE IF s.t = TCHAR THEN SetStr(p, s.v, s.dim) ELSE SetNum(p, s.t, s.v, s.dim)
           r == ApplySets(p1, Tail(sets))
       IN [p |-> r.p, outs |-> <<out>> \o r.outs]
\* Group::parameter (src/Group.cpp:183-198): replace the first parameter of that name in place, else append
PutInGroup(g, p) == IF ParamIdx(g, p.n) # 0 THEN [g EXCEPT !.p[ParamIdx(g, p.n)] = p] ELSE [g EXCEPT !.p = Append(@, p)]
SetParamOutcome(gname, p) ==
  IF p.n = <<>> THEN "invalid_argument"
  ELSE IF p.t = TNONE THEN "runtime_error"
  ELSE "ok"
\* Names that differ only by case are distinct in memory and identical in a file (names are stored upper-case):
\* such collisions are outside the alphabet (the format, not the library, makes them unrepresentable).
NoCaseCollision(gname, pname) ==
  /\ \A i \in 1..Len(G) : Upper(G[i].n) = Upper(gname) => G[i].n = gname
  /\ GroupIdx(G, gname) # 0 => \A k \in 1..Len(G[GroupIdx(G, gname)].p) :
                                    Upper(G[GroupIdx(G, gname)].p[k].n) = Upper(pname) => G[GroupIdx(G, gname)].p[k].n = pname
\* c3d::parameter with a Parameter object p (however the caller obtained it)
StoreParam(gname, p, op, outs) ==
  LET out == SetParamOutcome(gname, p) IN
  IF out # "ok" THEN Done(obj, op, out, outs)
  ELSE LET grp1 == IF GroupIdx(G, gname) = 0 THEN Append(G, MkGroup(gname, <<>>)) ELSE G
           gi == GroupIdx(grp1, gname)
           grp2 == [grp1 EXCEPT ![gi] = PutInGroup(grp1[gi], p)]
       IN /\ MandHeader(grp2)
          /\ Done([obj EXCEPT !.grp = grp2, !.hdr = UpdateHeader(obj.hdr, grp2, obj.frm, TRUE)], op, "ok", outs)
\* the argument is a reference to a parameter stored in this very object (c.parameter("NEW", c.parameters().group(g).parameter(p))):
\* value semantics - the stored copy equals the parameter as it was before the call
SetParamAlias(gname, sg, sp) ==
  /\ sg \in 1..Len(G) /\ sp \in 1..Len(G[sg].p) /\ NoCaseCollision(gname, G[sg].p[sp].n)
  /\ StoreParam(gname, G[sg].p[sp], [op |-> "SetParamAlias", g |-> gname, sg |-> sg - 1, sp |-> sp - 1], <<>>)
  /\ UNCHANGED callers
\* the argument is one of the frames of this very object (c.frame(c.data().frame(i), idx))
AddStoredFrame(src, idx) ==
  /\ src \in 1..NF /\ (idx = -1 => NF < MaxFrames) /\ idx < MaxFrames
  /\ AddFrameF(obj.frm[src], idx, [op |-> "AddFrameAlias", src |-> src - 1, idx |-> idx]) /\ UNCHANGED callers
DonorFile(p) == LET c == [DefaultObject EXCEPT !.grp = Append(@, [n |-> <<68, 79, 78, 79, 82>>, d |-> <<>>, l |-> 0, p |-> <<p>>])]
                IN EncodeWith(c, DefaultLayout(Len(c.grp)))
SetParam(gname, pspec) ==
  (WithReload => NoCaseCollision(gname, pspec.n)) /\        \* in memory names are compared exactly: "a" and "A" are two parameters
  LET built == ApplySets([MkParam(pspec.n, pspec.d) EXCEPT !.l = pspec.l], pspec.sets)
      p == built.p
      \* a byte-typed Parameter has no setter: the caller can only hold one that it took from a loaded object (the "donor" file, generated
      \* here by the encoder, carries exactly that parameter); handing it to c3d::parameter is API construction like any other
      hasByte == \E i \in 1..Len(pspec.sets) : pspec.sets[i].t = TBYTE
      op == IF hasByte THEN [op |-> "SetParam", g |-> gname, p |-> pspec, donor |-> DonorFile(p)] ELSE [op |-> "SetParam", g |-> gname, p |-> pspec]
      out == SetParamOutcome(gname, p) IN
  /\ IF out # "ok" THEN Done(obj, op, out, built.outs)
     ELSE LET grp1 == IF GroupIdx(G, gname) = 0 THEN Append(G, MkGroup(gname, <<>>)) ELSE G
              gi == GroupIdx(grp1, gname)
              grp2 == [grp1 EXCEPT ![gi] = PutInGroup(grp1[gi], p)]
          IN /\ MandHeader(grp2)          \* replacing a mandatory parameter by one the updater cannot read is outside the alphabet
             /\ Done([obj EXCEPT !.grp = grp2, !.hdr = UpdateHeader(obj.hdr, grp2, obj.frm, TRUE)], op, "ok", built.outs)
  /\ UNCHANGED callers
RateParam(name, r) == [n |-> name, d |-> <<>>, l |-> 1, sets |-> <<[t |-> TFLOAT, v |-> <<r>>, dim |-> <<>>, scalar |-> 1]>>]
SetPointRate(r) == SetParam(sPOINT, RateParam(sRATE, r))
SetAnalogRate(r) == SetParam(sANALOG, RateParam(sRATE, r))

LockGroup(gname, lock) ==
  LET op == [op |-> IF lock = 1 THEN "LockGroup" ELSE "UnlockGroup", g |-> gname] IN
  /\ IF GroupIdx(G, gname) = 0 THEN Done(obj, op, "invalid_argument", <<>>)
     ELSE Done([obj EXCEPT !.grp[GroupIdx(G, gname)].l = lock], op, "ok", <<>>)
  /\ UNCHANGED callers

(* ---------- the caller's own frame objects (C08): value semantics ---------- *)
CallerNew(k, kind, tag) ==
  /\ KindApplies(kind)
  /\ LET f == NormFrame(FrameOfKind(kind, tag)) IN
     /\ callers' = [callers EXCEPT ![k] = f]
     /\ lastOp' = [op |-> "CallerNew", c |-> k, frame |-> f] /\ hist' = Append(hist, lastOp')
  /\ lastOut' = "ok" /\ lastSets' = <<>> /\ lastRes' = <<>> /\ UNCHANGED <<obj, inScope>>
\* in-place edit through the public non-const accessors: first point's x / first channel's value := tag pattern
MutFrame(f, tag) ==
  IF Len(f.p) > 0 THEN [f EXCEPT !.p[1].v[1] = <<tag, 7, 7, 66>>]
  ELSE IF Len(f.a) > 0 /\ Len(f.a[1]) > 0 THEN [f EXCEPT !.a[1][1].v = <<tag, 7, 7, 66>>]
  ELSE f
\* (IF, not \/: inside an action TLC explores both sides of a disjunction)
HasValue(f) == IF Len(f.p) > 0 THEN TRUE ELSE IF Len(f.a) > 0 THEN Len(f.a[1]) > 0 ELSE FALSE
MutOp(f, tag) ==
  IF Len(f.p) > 0 THEN [kind |-> "ptval", i |-> 0, v |-> <<tag, 7, 7, 66>>]
  ELSE [kind |-> "chval", s |-> 0, i |-> 0, v |-> <<tag, 7, 7, 66>>]
CallerMutate(k, tag) ==
  /\ HasValue(callers[k])
  /\ MutFrame(callers[k], tag) # callers[k]
  /\ callers' = [callers EXCEPT ![k] = MutFrame(@, tag)]
  /\ lastOp' = [op |-> "CallerMutate", c |-> k] @@ MutOp(callers[k], tag) /\ hist' = Append(hist, lastOp')
  /\ lastOut' = "ok" /\ lastSets' = <<>> /\ lastRes' = <<>> /\ UNCHANGED <<obj, inScope>>
\* the caller adds a point to its own frame object (once): whatever it shares with a stored frame would grow too
CallerGrow(k) ==
  /\ Len(callers[k].p) > 0 /\ XName \notin SeqToSet(PointNames(callers[k]))
  /\ LET pt == MkPoint(XName, 9, 9) IN
     /\ callers' = [callers EXCEPT ![k].p = Append(@, pt)]
     /\ lastOp' = [op |-> "CallerMutate", c |-> k, kind |-> "addpt", pt |-> pt] /\ hist' = Append(hist, lastOp')
  /\ lastOut' = "ok" /\ lastSets' = <<>> /\ lastRes' = <<>> /\ UNCHANGED <<obj, inScope>>
AddCallerFrame(k, idx) ==
  /\ (idx = -1 => NF < MaxFrames) /\ idx < MaxFrames
  /\ AddFrameF(callers[k], idx, [op |-> "AddFrame", idx |-> idx, c |-> k]) /\ UNCHANGED callers
\* editing one stored frame in place (data().frame(i).points_nonConst()...) touches that frame only
EditStored(fi, tag) ==
  /\ fi \in 1..NF /\ HasValue(obj.frm[fi])
  /\ MutFrame(obj.frm[fi], tag) # obj.frm[fi]
  /\ Done([obj EXCEPT !.frm[fi] = MutFrame(@, tag)], [op |-> "EditStored", f |-> fi - 1] @@ MutOp(obj.frm[fi], tag), "ok", <<>>)
  /\ UNCHANGED callers


(* ---------- read-only look-ups (C11): element at the position / first element of exactly that name ---------- *)
\* positions: -1 stands for 2^64-1 and -2 for 2^32 (TLC integers are 32 bit; the harness maps the tokens)
Idxs(n) == 0..(n + 1) \cup {-1, -2}
In(i, n) == i >= 0 /\ i < n
OOR == [out |-> "out_of_range", res |-> <<>>]
INV == [out |-> "invalid_argument", res |-> <<>>]
Ok(r) == [out |-> "ok", res |-> r]
NameIdx(names, nm) == IndexOfFirst(names, LAMBDA x : x = nm)
GetResult(o, q) ==
  LET F == o.frm IN
  CASE q.q = "frame" -> IF In(q.f, Len(F)) THEN Ok(F[q.f + 1]) ELSE OOR
    [] q.q = "point" -> IF ~In(q.f, Len(F)) THEN OOR ELSE IF In(q.i, Len(F[q.f + 1].p)) THEN Ok(F[q.f + 1].p[q.i + 1]) ELSE OOR
    [] q.q \in {"pointByName", "pointIdx"} ->
         IF ~In(q.f, Len(F)) THEN OOR
         ELSE LET k == NameIdx(PointNames(F[q.f + 1]), q.name) IN
              IF k = 0 THEN INV ELSE IF q.q = "pointIdx" THEN Ok(k - 1) ELSE Ok(F[q.f + 1].p[k])
    [] q.q = "subframe" -> IF ~In(q.f, Len(F)) THEN OOR ELSE IF In(q.s, Len(F[q.f + 1].a)) THEN Ok(F[q.f + 1].a[q.s + 1]) ELSE OOR
    [] q.q = "channel" ->
         IF ~In(q.f, Len(F)) THEN OOR ELSE IF ~In(q.s, Len(F[q.f + 1].a)) THEN OOR
         ELSE IF In(q.i, Len(F[q.f + 1].a[q.s + 1])) THEN Ok(F[q.f + 1].a[q.s + 1][q.i + 1]) ELSE OOR
    [] q.q \in {"channelByName", "channelIdx"} ->
         IF ~In(q.f, Len(F)) THEN OOR ELSE IF ~In(q.s, Len(F[q.f + 1].a)) THEN OOR
         ELSE LET sf == F[q.f + 1].a[q.s + 1]  k == NameIdx(ChannelNames(sf), q.name) IN
              IF k = 0 THEN INV ELSE IF q.q = "channelIdx" THEN Ok(k - 1) ELSE Ok(sf[k])
    [] q.q = "group" -> IF In(q.g, Len(o.grp)) THEN Ok(o.grp[q.g + 1]) ELSE OOR
    [] q.q \in {"groupByName", "groupIdx"} ->
         LET k == GroupIdx(o.grp, q.name) IN IF k = 0 THEN INV ELSE IF q.q = "groupIdx" THEN Ok(k - 1) ELSE Ok(o.grp[k])
    [] q.q = "param" -> IF ~In(q.g, Len(o.grp)) THEN OOR ELSE IF In(q.i, Len(o.grp[q.g + 1].p)) THEN Ok(o.grp[q.g + 1].p[q.i + 1]) ELSE OOR
    [] q.q \in {"paramByName", "paramIdx"} ->
         IF ~In(q.g, Len(o.grp)) THEN OOR
         ELSE LET k == ParamIdx(o.grp[q.g + 1], q.name) IN
              IF k = 0 THEN INV ELSE IF q.q = "paramIdx" THEN Ok(k - 1) ELSE Ok(o.grp[q.g + 1].p[k])
    [] q.q = "valuesAs" ->
         LET p == o.grp[q.g + 1].p[q.i + 1]
             want == CASE q.as = "byte" -> TBYTE [] q.as = "int" -> TINT [] q.as = "float" -> TFLOAT [] OTHER -> TCHAR IN
         IF p.t = want THEN Ok(p.v) ELSE INV
    [] q.q = "evt" -> IF In(q.i, 18) THEN Ok(o.hdr.evt[q.i + 1]) ELSE OOR
    [] q.q = "evd" -> IF In(q.i, 9) THEN Ok(o.hdr.evd[q.i + 1]) ELSE OOR
    [] q.q = "evl" -> IF In(q.i, 18) THEN Ok(o.hdr.evl[q.i + 1]) ELSE OOR
\* name variants tried for a container: every present name, its upper-cased and space-padded variants, an absent name
NameVariants(names) ==
  LET S == SeqToSet(names) IN S \cup {Upper(n) : n \in S} \cup {n \o <<32>> : n \in S} \cup {<<122, 122>>}
Queries(o) ==
  LET F == o.frm  nf == Len(F)
      fr(f) == F[f + 1]
      goodF == IF nf > 0 THEN {0, nf - 1} ELSE {}
      badF == {nf, -1}
      Q(r) == [op |-> "Get", post |-> 0] @@ r IN
  {Q([q |-> "frame", f |-> f]) : f \in Idxs(nf)}
  \cup {Q([q |-> "point", f |-> f, i |-> i]) : f \in goodF, i \in Idxs(IF nf > 0 THEN Len(fr(0).p) ELSE 0)}
  \cup {Q([q |-> "point", f |-> f, i |-> 0]) : f \in badF}
  \cup UNION {{Q([q |-> qq, f |-> f, name |-> nm]) : nm \in NameVariants(PointNames(fr(f))), qq \in {"pointByName", "pointIdx"}} : f \in goodF}
  \cup {Q([q |-> "pointByName", f |-> f, name |-> <<122, 122>>]) : f \in badF}
  \cup UNION {{Q([q |-> "subframe", f |-> f, s |-> s]) : s \in Idxs(Len(fr(f).a))} : f \in goodF}
  \cup UNION {{Q([q |-> "channel", f |-> f, s |-> s, i |-> i]) : s \in 0..(Len(fr(f).a) - 1), i \in Idxs(IF Len(fr(f).a) > 0 THEN Len(fr(f).a[1]) ELSE 0)} : f \in goodF}
  \cup UNION {{Q([q |-> "channel", f |-> f, s |-> s, i |-> 0]) : s \in {Len(fr(f).a), -2}} : f \in goodF}
  \cup UNION {UNION {{Q([q |-> qq, f |-> f, s |-> s, name |-> nm]) : nm \in NameVariants(ChannelNames(fr(f).a[s + 1])), qq \in {"channelByName", "channelIdx"}}
                      : s \in 0..(Len(fr(f).a) - 1)} : f \in goodF}
  \cup {Q([q |-> "group", g |-> g]) : g \in Idxs(Len(o.grp))}
  \cup {Q([q |-> qq, name |-> nm]) : nm \in NameVariants([i \in 1..Len(o.grp) |-> o.grp[i].n]) \cup {<<112, 111, 105, 110, 116>>}, qq \in {"groupByName", "groupIdx"}}
  \cup UNION {{Q([q |-> "param", g |-> g, i |-> i]) : i \in Idxs(Len(o.grp[g + 1].p))} : g \in 0..(Len(o.grp) - 1)}
  \cup {Q([q |-> "param", g |-> g, i |-> 0]) : g \in {Len(o.grp), -1, -2}}
  \cup UNION {{Q([q |-> qq, g |-> g, name |-> nm]) : nm \in NameVariants([i \in 1..Len(o.grp[g + 1].p) |-> o.grp[g + 1].p[i].n]), qq \in {"paramByName", "paramIdx"}} : g \in 0..(Len(o.grp) - 1)}
  \cup UNION {{Q([q |-> "valuesAs", g |-> g, i |-> i, as |-> as]) : i \in 0..(Len(o.grp[g + 1].p) - 1), as \in {"byte", "int", "float", "string"}} : g \in 0..(Len(o.grp) - 1)}
  \cup {Q([q |-> qq, i |-> i]) : qq \in {"evt", "evl"}, i \in {0, 17, 18, 19, -1, -2}}
  \cup {Q([q |-> "evd", i |-> i]) : i \in {0, 8, 9, 10, -1, -2}}
Get(q) ==
  LET r == GetResult(obj, q) IN
  /\ lastOp' = q /\ lastOut' = r.out /\ lastRes' = r.res /\ lastSets' = <<>> /\ hist' = hist
  /\ UNCHANGED <<obj, callers, inScope>>

\* c3d::print(): writes the header, every parameter and every frame to the standard output; read-only (its text is not modelled:
\* the build matrix of C19 compares a hash of it between builds, C13 runs it under the sanitizers on every reachable object)
PrintObj ==
  /\ lastOp' = [op |-> "Print"] /\ lastOut' = "ok" /\ lastRes' = <<>> /\ lastSets' = <<>> /\ hist' = hist
  /\ UNCHANGED <<obj, callers, inScope>>

(* ---------- save to a file and load it back (C01, C03, C04, C14) ---------- *)
\* write() leaves the object alone and produces WriterModel(obj); c3d(path) builds ReaderModel(bytes).
\* Enabled where the reader model is defined for the written bytes (every byte it consumes exists).
ReloadPath == "reload.c3d"
\* known finding C05 empty-shape-frames, seen from the file: without points and channels the header cannot say how many frames there are
\* (its frame count is derived from the data size), so POINT:FRAMES of such an object stands alone; what its file loads back to is not
\* specified (the save + load action is not enabled there, as for the gap frames)
KF_ShapelessFrames(o) == o.hdr.npts = 0 /\ HdrAnalogs(o.hdr) = 0 /\ (Len(o.frm) > 0 \/ Val1(o.grp, sPOINT, sFRAMES) # 0)
Reload ==
  /\ MandHeader(obj.grp) /\ ~KF_ShapelessFrames(obj)
  /\ IF ~Fits(obj) THEN Done(obj, [op |-> "Reload", path |-> ReloadPath], "range_error", <<>>)     \* refused before anything is written
     ELSE LET b == WriterModel(obj)  r == ReaderModel(b) IN
          /\ ReaderDefined(b) /\ r.out \in {"ok", "ios_failure", "invalid_argument"}
          /\ Done(IF r.out = "ok" THEN r.obj ELSE obj, [op |-> "Reload", path |-> ReloadPath], r.out, <<>>)
  /\ UNCHANGED callers

\* constructing an object from a given file (C02): the object becomes ReaderModel(bytes)
LoadBytes(i) ==
  LET b == Files[i]  r == ReaderModel(b) IN
  /\ ReaderDefined(b) /\ r.out \in {"ok", "ios_failure", "invalid_argument"}
  /\ Done(IF r.out = "ok" THEN r.obj ELSE obj, [op |-> "LoadBytes", path |-> "gen.c3d", file |-> i, bytes |-> b], r.out, <<>>)
  /\ UNCHANGED callers

(* ---------- the state machine ---------- *)
Init ==
  /\ obj = DefaultObject
  /\ callers = [k \in CallerIds |-> EmptyFrame]
  /\ hist = <<>> /\ lastOp = [op |-> "New"] /\ lastOut = "ok" /\ lastSets = <<>> /\ lastRes = <<>> /\ inScope = TRUE

PhaseDecl == ~Phased \/ (NF = 0 /\ \A k \in CallerIds : callers[k] = EmptyFrame)
ShapeReady == ~Phased \/ (Len(PLabels) >= 1 /\ Len(ALabels) >= 1 /\ ~FIsZero(Val1(G, sPOINT, sRATE)) /\ ~FIsZero(Val1(G, sANALOG, sRATE)))
Next ==
  \/ \E r \in PRates : PhaseDecl /\ SetPointRate(r)
  \/ \E r \in ARates : PhaseDecl /\ SetAnalogRate(r)
  \/ \E n \in PNames : (PhaseDecl \/ NF > 0) /\ DeclPoint(n)
  \/ \E n \in ANames : (PhaseDecl \/ NF > 0) /\ DeclAnalog(n)
  \/ \E k \in FrameKinds, t \in Tags, i \in IdxRange : (ShapeReady \/ k = "dupnames") /\ AddFrame(k, t, i)
  \/ \E k \in ColKinds \ {"lesssub", "moresub"}, t \in Tags, n \in PNames, n2 \in PNames : AddPointCols(k, t, n, n2)
  \/ \E k \in ColKinds, t \in Tags, n \in ANames, n2 \in ANames : AddAnalogCols(k, t, n, n2)
  \/ \E i \in 1..Len(UserParams) : SetParam(UserParams[i].g, UserParams[i].p)
  \/ \E g \in LockNames, l \in {0, 1} : LockGroup(g, l)
  \/ \E k \in CallerIds, kind \in FrameKinds, t \in Tags : ShapeReady /\ CallerNew(k, kind, t)
  \/ \E k \in CallerIds, t \in Tags : CallerMutate(k, t)
  \/ \E k \in CallerIds : CallerGrow(k)
  \/ \E k \in CallerIds, i \in IdxRange : AddCallerFrame(k, i)
  \/ \E f \in 1..MaxFrames, t \in Tags : WithEdits /\ EditStored(f, IF t = 0 THEN 200 + f ELSE t)
  \/ \E g \in AliasGroups : SetParamAlias(g, 1, 1) \/ SetParamAlias(g, 2, 2)      \* POINT:USED, ANALOG:LABELS handed back to the object
  \/ \E s \in 1..MaxFrames, i \in IdxRange : WithAlias /\ AddStoredFrame(s, i)
  \/ Lookups /\ \E q \in Queries(obj) : Get(q)
  \/ Lookups /\ PrintObj
  \/ WithReload /\ Reload
  \/ \E i \in 1..Len(Files) : LoadBytes(i)

Spec == Init /\ [][Next]_vars

(* ---------- what is exported for the replay (direction B) ---------- *)
\* quick tiers replay a random 1/k sample of the transitions (environment variable SAMPLEK; TLC still explores and checks all of them);
\* every sampled case executes its whole path from Init on the real object
\* (the parameter keeps TLC from evaluating the random choice once, as a constant)
Sampled(n) == LET k == atoi(IOEnv.SAMPLEK) IN IF k <= 1 THEN TRUE ELSE RandomElement(1..(k + 0 * n)) = 1
AbsHdr(h) == h @@ [nanalogs |-> HdrAnalogs(h), nframes |-> HdrFrames(h)]
Abs(o) == [hdr |-> AbsHdr(o.hdr), prm |-> o.prm, grp |-> o.grp, frm |-> o.frm]

\* inverse of Abs (drops the two derived header fields)
StateOfPost(p) == [hdr |-> [f \in DOMAIN p.hdr \ {"nanalogs", "nframes"} |-> p.hdr[f]], prm |-> p.prm, grp |-> p.grp, frm |-> p.frm]

(* ---------- properties ---------- *)
\* C10 at design level: a refused call changes nothing (true by construction; the content is in the binding)
RefusedUnchanged == [][lastOut' # "ok" => obj' = obj]_vars
\* C06: append / replace / extend exactly as documented, all other frames untouched
FrameStoreOK ==
  [][ (lastOp'.op = "AddFrame" /\ lastOut' = "ok") =>
        LET idx == lastOp'.idx  n == Len(obj.frm)
            f == IF "c" \in DOMAIN lastOp' THEN callers[lastOp'.c] ELSE NormFrame(lastOp'.frame) IN
        IF idx = -1 THEN obj'.frm = Append(obj.frm, f)
        ELSE IF idx < n THEN obj'.frm = [obj.frm EXCEPT ![idx + 1] = f]
        ELSE /\ Len(obj'.frm) = idx + 1 /\ obj'.frm[idx + 1] = f
             /\ SubSeq(obj'.frm, 1, n) = obj.frm
             /\ \A j \in (n + 1)..idx : obj'.frm[j] = EmptyFrame ]_vars
\* C06/C08: a column adder adds exactly its columns, once, to every frame
ColumnsOK ==
  [][ (lastOp'.op \in {"DeclPoint", "AddPointCols"} /\ lastOut' = "ok" /\ Len(obj.frm) > 0) =>
        /\ Len(obj'.frm) = Len(obj.frm)
        /\ \A f \in 1..Len(obj.frm) :
             /\ obj'.frm[f].a = obj.frm[f].a
             /\ SubSeq(obj'.frm[f].p, 1, Len(obj.frm[f].p)) = obj.frm[f].p
             /\ Len(obj'.frm[f].p) = Len(obj.frm[f].p) + (IF lastOp'.op = "DeclPoint" THEN 1 ELSE Len(lastOp'.frames[1].p)) ]_vars
\* C08: caller-side edits never reach the object
CallerIndependent == [][lastOp'.op \in {"CallerNew", "CallerMutate"} => obj' = obj]_vars        \* (CallerGrow is recorded as a CallerMutate)
\* C07 (converse clause): a frame that matches the declared names, counts, rates and ratio is accepted
ConformingAccepted ==
  LET f == FrameOfKind("conf", 1)
      ratesOK == (Len(f.p) > 0 => ~FIsZero(Val1(G, sPOINT, sRATE))) /\ (Len(f.a) > 0 => ~FIsZero(Val1(G, sANALOG, sRATE)))
  IN ratesOK => FrameOutcome(f) = "ok"
\* C11: by-name and positional look-up of the same element agree (checked on every reachable state)
LookupConsistent ==
  \A q \in Queries(obj) :
     LET r == GetResult(obj, q) IN
     /\ (q.q = "pointByName" /\ r.out = "ok" =>
           LET k == GetResult(obj, [q EXCEPT !.q = "pointIdx"]) IN
           k.out = "ok" /\ GetResult(obj, [q |-> "point", f |-> q.f, i |-> k.res]).res = r.res /\ r.res.n = q.name)
     /\ (q.q = "channelByName" /\ r.out = "ok" =>
           LET k == GetResult(obj, [q EXCEPT !.q = "channelIdx"]) IN
           k.out = "ok" /\ GetResult(obj, [q |-> "channel", f |-> q.f, s |-> q.s, i |-> k.res]).res = r.res /\ r.res.n = q.name)
     /\ (q.q = "groupByName" /\ r.out = "ok" => GetResult(obj, [q |-> "group", g |-> GetResult(obj, [q EXCEPT !.q = "groupIdx"]).res]).res = r.res)
     /\ (q.q = "paramByName" /\ r.out = "ok" => GetResult(obj, [q |-> "param", g |-> q.g, i |-> GetResult(obj, [q EXCEPT !.q = "paramIdx"]).res]).res = r.res)
     /\ (q.q \in {"frame", "point", "subframe", "channel", "group", "param", "evt", "evd", "evl"} =>
           r.out \in {"ok", "out_of_range"})
     /\ (q.q \in {"pointIdx", "channelIdx", "groupByName", "groupIdx", "paramByName", "paramIdx"} /\ r.out # "ok" => r.out \in {"invalid_argument", "out_of_range"})
\* stored names never carry trailing spaces
NamesTrimmed ==
  /\ \A i \in 1..Len(obj.frm) : \A j \in 1..Len(obj.frm[i].p) : TrimRight(obj.frm[i].p[j].n) = obj.frm[i].p[j].n
  /\ \A i \in 1..Len(obj.frm) : \A s \in 1..Len(obj.frm[i].a) : \A c \in 1..Len(obj.frm[i].a[s]) : TrimRight(obj.frm[i].a[s][c].n) = obj.frm[i].a[s][c].n
  /\ \A i \in 1..Len(PLabels) : TrimRight(PLabels[i]) = PLabels[i]
  /\ \A i \in 1..Len(ALabels) : TrimRight(ALabels[i]) = ALabels[i]
\* C01: what was saved is what loads back (content: names upper-cased, everything else bit for bit)
HasGapFrame(o) == \E i \in 1..Len(o.frm) : ~Filled(o.frm[i])
\* known finding C01/C03 gap-frames-on-disk: empty frames created by extension are written as nothing
\* (the same holds for a frame that was stored empty and later received only part of the declared shape - a point column, but none of
\* the analog sub-frames the header announces: every frame is written as it is, the reader expects the declared shape per frame)
FrameCarriesShape(o, f) ==
  /\ Len(f.p) = o.hdr.npts
  /\ IF HdrAnalogs(o.hdr) > 0 /\ o.hdr.perframe > 0
       THEN Len(f.a) = o.hdr.perframe /\ \A s \in 1..Len(f.a) : Len(f.a[s]) = HdrAnalogs(o.hdr)
       ELSE \A s \in 1..Len(f.a) : Len(f.a[s]) = 0          \* no sample where the header announces none
KF_GapFramesOnDisk(o) == HasGapFrame(o) \/ \E i \in 1..Len(o.frm) : ~FrameCarriesShape(o, o.frm[i])
\* known finding C01 zero-point-rate-with-analogs: the number of sub-frames per frame is not stored in the parameters; the reader
\* derives it from ANALOG:RATE / POINT:RATE and assumes 1 when POINT:RATE is 0, so analog data with several sub-frames per frame
\* saved while POINT:RATE is still 0 does not load back (the carve-out is exactly that state class)
KF_ZeroPointRateWithAnalogs(o) == FTrunc(Val1(o.grp, sPOINT, sRATE)) = 0 /\ HdrAnalogs(o.hdr) > 0 /\ o.hdr.perframe # 1
RoundTrip ==
  (Mand(obj.grp) /\ ~KF_GapFramesOnDisk(obj)) =>
     LET b == WriterModel(obj)  r == ReaderModel(b) IN
     /\ r.out = "ok" /\ r.end = Len(b)
     /\ Content(r.obj) = Content(obj)
\* C03 at design level: the layout ezc3d writes is self-consistent for every reachable object (all pointer arithmetic)
WrittenFileConsistent ==
  (Mand(obj.grp) /\ ~KF_GapFramesOnDisk(obj)) =>
     (SelfConsistentKF(WriterModel(obj), obj) \/ (PrintT(<<"SCReport", SCReport(WriterModel(obj), obj)>>) /\ FALSE))
\* C04 / C14 at design level: saving what was loaded reproduces the bytes (generation 2 = generation 3)
SaveIdempotent ==
  (Mand(obj.grp) /\ ~KF_GapFramesOnDisk(obj)) =>
     LET b1 == WriterModel(obj)  r1 == ReaderModel(b1) IN
     r1.out = "ok" =>
        LET b2 == WriterModel(r1.obj)  r2 == ReaderModel(b2) IN
        /\ r2.out = "ok" /\ Content(r2.obj) = Content(r1.obj)      \* load -> save -> load preserves the content
        /\ WriterModel(r2.obj) = b2                                 \* and the next save is byte-identical
\* the three I/O invariants with the file model evaluated once per state (TLC does not share work between invariants)
IOInv ==
  (MandHeader(obj.grp) /\ Fits(obj) /\ ~KF_GapFramesOnDisk(obj) /\ ~KF_ZeroPointRateWithAnalogs(obj) /\ ~KF_ShapelessFrames(obj)) =>
     LET b1 == WriterModel(obj)  r1 == ReaderModel(b1)
         c01 == r1.out = "ok" /\ r1.end = Len(b1) /\ Content(r1.obj) = Content(obj)
         c03 == SelfConsistentKF(b1, obj)
         b2 == WriterModel(r1.obj)  r2 == ReaderModel(b2)
         c04 == r1.out = "ok" => (r2.out = "ok" /\ Content(r2.obj) = Content(r1.obj) /\ WriterModel(r2.obj) = b2)
     IN (c01 /\ c03 /\ c04) \/ (PrintT(<<"IOInv", [RoundTrip |-> c01, Consistent |-> c03, Idempotent |-> c04], SCReport(b1, obj)>>) /\ FALSE)
AgreementInv == Agreement(obj)
AgreePointsInv == inScope => AgreePoints(obj)
AgreeFramesInv == AgreeFrames(obj)
AgreeAnalogsInv == inScope => AgreeAnalogs(obj)
AgreeRateInv == AgreeRate(obj)
AgreeLabelsInv == inScope => AgreeLabels(obj)
MandInv == Mand(obj.grp)
============================================================================
