---------------------------- MODULE MC_Frames ----------------------------
(* Bounded instance of EzApi for C06 / C08: append, replace and extend with frames that    *)
(* carry distinguishable payloads (tags), caller-side frame objects that are mutated in      *)
(* place and handed over repeatedly, in-place edits of stored frames, and column adders.     *)
EXTENDS EzApi, Json
CONSTANTS NTags, NCallers, NChan

p1 == <<112,49>>  p2 == <<112,50>>  a1 == <<97,49>>  a2 == <<97,50>>
MC_PNames == {p1, p2}
MC_ANames == IF NChan >= 2 THEN {a1, a2} ELSE {a1}     \* a second channel name: channel columns can be added to existing frames
MC_PRates == {FOfNat(100)}
MC_ARates == {FOfNat(200)}
MC_FrameKinds == IF NCallers = 0 THEN {"conf", "noan", "nopts"} ELSE {"conf"}     \* also frames carrying only their points / only their analogs
MC_ColKinds == {"ok1"}
MC_Tags == IF NTags = 0 THEN {0} ELSE 0..(NTags - 1)      \* 0 = automatic payload (distinct per data-set size and target)
MC_UserParams == <<>>
MC_LockNames == {}
MC_CallerIds == 1..NCallers
\* the parameter tree is compared on every transition of MC_Shape / MC_Params; here the frames and the header are exported
MC_Files == <<>>
MC_AliasGroups == {}
Dump == ~Sampled(Len(hist)) \/ PrintT(ToJson([path |-> hist, op |-> lastOp', out |-> lastOut', post |-> [hdr |-> AbsHdr(obj'.hdr), frm |-> obj'.frm]]))
=========================================================================
