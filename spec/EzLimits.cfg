INIT Init
NEXT MCNext
INVARIANT NeverSilentlyDifferent
CHECK_DEADLOCK FALSE
