---------------------------- MODULE MC_Format ----------------------------
(* C02 / C04 / C12: files produced by the specification's own encoder (EncodeWith) over    *)
(* layout variants x content shapes are loaded by the real reader. Oracles:                  *)
(*  - FormatOracle (ASSUME, evaluated by TLC once): the independent decoder returns the      *)
(*    encoded content for every generated file, and the reader model's content equals it;    *)
(*  - replay: the real loaded object = the reader model's object, then save/load generations *)
(*    from it (content preserved, generation 2 bytes = generation 3 bytes).                  *)
EXTENDS EzContents, Json
CONSTANTS Variant,         \* "layout" | "patterns" : which family of files this run generates
          Full             \* layout family: TRUE = every content x every layout; FALSE = all layouts for three contents, three layouts for the others

Contents == <<   \* (small: pre-evaluated once)
  C_small, AddG(C_small, ExtraGroup), WithEvents(C_two), Shifted(C_two), Relabel(C_two, -1), Relabel(C_pts, 1),
  AnalogEmpty(C_pts), C_ana, C_none, AddG(C_none, ExtraGroup), RelabelA(C_ana, -1), RelabelA(C_two, -1), RelabelA(C_small, 1), AddG(C_pts, BigGroup), C_ntsc >>
(* ---- layouts ---- *)
L0(n) == DefaultLayout(n)
Layouts(n) == <<
  L0(n),
  [L0(n) EXCEPT !.zeros = 3],
  [L0(n) EXCEPT !.paddr = 3],
  [L0(n) EXCEPT !.zeroPrologue = TRUE],
  [L0(n) EXCEPT !.rev = TRUE, !.gids = [i \in 1..n |-> n + 1 - i]],                    \* out-of-order ids and records
  [L0(n) EXCEPT !.gids = [i \in 1..n |-> IF i = n THEN n + 2 ELSE i]],                 \* sparse ids
  [L0(n) EXCEPT !.scalarAsArray = TRUE],
  [L0(n) EXCEPT !.zeros = 1, !.paddr = 3, !.zeroPrologue = TRUE, !.rev = TRUE] >>
\* (operators with a parameter are evaluated on demand; TLC pre-evaluates every parameterless constant definition at start-up)
LayoutFile(k) == LET c == Contents[((k - 1) \div 8) + 1]  lay == Layouts(Len(c.grp))[((k - 1) % 8) + 1] IN [src |-> c, lay |-> lay, bytes |-> EncodeWith(c, lay)]
NC == Len(Contents)
NLayoutFiles == IF Full THEN NC * 8 ELSE 24 + (NC - 3) * 3
\* index of the k-th selected (content, layout) pair in the full enumeration
LayoutSelIdx(k) == IF Full \/ k <= 24 THEN k ELSE (3 + (k - 25) \div 3) * 8 + <<1, 5, 8>>[((k - 25) % 3) + 1]
(* ---- C12: bit patterns ---- *)
IntParam(name, lo, dims) == MkP(name, <<>>, 0, TINT, dims, [i \in 1..1024 |-> lo + i - 1])
ByteParam(x) == MkP(<<66>>, <<>>, 0, TBYTE, <<16, 8, 2>>, [i \in 1..256 |-> i - 129])
IntFile(k) == AddG(C_none, [n |-> <<73, 78, 84, 83>>, d |-> <<>>, l |-> 0, p |->
                 [j \in 1..4 |-> IntParam(<<73, 48 + j>>, -32768 + ((k - 1) * 4 + (j - 1)) * 1024,
                                          IF j = 4 THEN <<128, 4, 2>> ELSE IF j = 3 THEN <<16, 4, 4, 4>> ELSE <<128, 8>>)]])      \* 2-D, 3-D and 4-D arrays)
\* float patterns: every exponent with both signs, mantissa 0 / 1 / all ones / arbitrary
FPat(sign, e, m) == LET mant == IF m = 0 THEN 0 ELSE IF m = 1 THEN 1 ELSE IF m = 2 THEN 8388607 ELSE 5592405 IN
                    <<mant % 256, (mant \div 256) % 256, (mant \div 65536) + (e % 2) * 128, (e \div 2) + sign * 128>>
FloatFile(sign, m) ==
  LET o == Build(<<cp1, cp2>>, <<ca1>>, 1, 32)
      val(f, i, c) == FPat(sign, ((f - 1) * 8 + (i - 1) * 4 + (c - 1)) % 256, m)
      o1 == [o EXCEPT !.frm = [f \in 1..32 |-> [@[f] EXCEPT !.p = [i \in 1..2 |-> [@[i] EXCEPT !.v = [c \in 1..4 |-> val(f, i, c)]]],
                                                            !.a = [s \in 1..1 |-> [i \in 1..1 |-> [@[s][i] EXCEPT !.v = FPat(1 - sign, (f * 8 - 1) % 256, m)]]]]]]
      o2 == AddG(o1, [n |-> <<70>>, d |-> <<>>, l |-> 0, p |-> <<MkP(<<70, 80>>, <<>>, 0, TFLOAT, <<32, 4, 2>>, [i \in 1..256 |-> FPat(sign, i - 1, m)])>>])
  IN [o2 EXCEPT !.hdr.evt = [i \in 1..18 |-> FPat(sign, (i * 14) % 256, m)]]
HeaderWordFile(w) == [C_none EXCEPT !.hdr.gap = w, !.hdr.klp = w, !.hdr.fbkl = w, !.hdr.fcp = w, !.hdr.nev = w, !.hdr.evd = [i \in 1..9 |-> IF i % 2 = 1 THEN w ELSE 65535 - w]]
WordValues == <<0, 1, 2, 127, 128, 255, 256, 32767, 32768, 65535>>
PatternSrc(k) == IF k <= 16 THEN IntFile(k)
                 ELSE IF k = 17 THEN AddG(C_none, [n |-> <<66>>, d |-> <<>>, l |-> 0, p |-> <<ByteParam(0)>>])
                 ELSE IF k <= 21 THEN FloatFile((k - 18) % 2, k - 18)
                 ELSE HeaderWordFile(WordValues[k - 21])
NPatternFiles == 21 + Len(WordValues)
PatternFile(k) == LET c == PatternSrc(k) IN [src |-> c, lay |-> L0(Len(c.grp)), bytes |-> EncodeWith(c, L0(Len(c.grp)))]
FileOf(k) == IF Variant = "layout" THEN LayoutFile(LayoutSelIdx(k)) ELSE PatternFile(k)
NFiles == IF Variant = "layout" THEN NLayoutFiles ELSE NPatternFiles
MC_Files == [k \in 1..NFiles |-> FileOf(k).bytes]
SameContent(c1, c2) == c1.hdr = c2.hdr /\ c1.frm = c2.frm /\ Len(c1.grp) = Len(c2.grp) /\ SeqToSet(c1.grp) = SeqToSet(c2.grp)
\* the oracle: encoder, independent decoder and reader model agree on every generated file
FormatOracle ==
  \A k \in 1..NFiles :
     LET f == FileOf(k)  d == Decode(f.bytes)  r == ReaderModel(f.bytes) IN
     \/ /\ "bad" \notin DOMAIN d /\ SameContent(d, Content(f.src))      \* (groups carry no order of their own: ids may be permuted)
        /\ r.out = "ok" /\ r.end = Len(f.bytes) /\ Content(r.obj) = d
     \/ PrintT(<<"FormatOracle fails for file", k, IF "bad" \in DOMAIN d THEN d ELSE <<d.hdr = Content(f.src).hdr, d.grp = Content(f.src).grp, d.frm = Content(f.src).frm>>,
                 r.out, IF r.out = "ok" THEN <<Content(r.obj).hdr = d.hdr, Content(r.obj).grp = d.grp, Content(r.obj).frm = d.frm>> ELSE <<>> >>) /\ FALSE
ASSUME FormatOracle
\* C12 at design level: the byte <-> integer conversions are exact for every value
ASSUME Lemma_S16_LE16 /\ Lemma_U16_LE16 /\ Lemma_S8_Low /\ Lemma_S16_Range /\ Lemma_S16_Inj

MC_PNames == {}  MC_ANames == {}  MC_PRates == {}  MC_ARates == {}
MC_FrameKinds == {}  MC_ColKinds == {}  MC_Tags == {1}  MC_CallerIds == {}  MC_UserParams == <<>>  MC_LockNames == {}
MC_AliasGroups == {}
Dump == ~Sampled(Len(hist)) \/ PrintT(ToJson([path |-> hist, op |-> lastOp', out |-> lastOut', post |-> Abs(obj'),
                       bytes |-> IF lastOp'.op = "Reload" /\ lastOut' # "range_error" THEN WriterModel(obj) ELSE <<>>]))
=========================================================================
