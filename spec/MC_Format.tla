---------------------------- MODULE MC_Format ----------------------------
(* C02 / C04 / C12: files produced by the specification's own encoder (EncodeWith) over    *)
(* layout variants x content shapes are loaded by the real reader. Oracles:                  *)
(*  - FormatOracle (ASSUME, evaluated by TLC once): the independent decoder returns the      *)
(*    encoded content for every generated file, and the reader model's content equals it;    *)
(*  - replay: the real loaded object = the reader model's object, then save/load generations *)
(*    from it (content preserved, generation 2 bytes = generation 3 bytes).                  *)
EXTENDS EzApi, Json
CONSTANTS Variant,         \* "layout" | "patterns" : which family of files this run generates
          Full             \* layout family: TRUE = every content x every layout; FALSE = all layouts for three contents, three layouts for the others

p1 == <<112,49>>  p2 == <<80,50>>  a1 == <<97,49>>  a2 == <<65,50>>
(* ---- contents: objects as a foreign writer might hold them ---- *)
SetP(o, gn, pn, q) == [o EXCEPT !.grp = PutParam(o.grp, gn, pn, q)]
AddP(o, gn, q) == LET gi == GroupIdx(o.grp, gn) IN [o EXCEPT !.grp[gi].p = Append(@, q)]
AddG(o, g) == [o EXCEPT !.grp = Append(@, g)]
BuildR(pn, an, ns, nf, prate, arate) ==
  LET o0 == DefaultObject
      o1 == SetP(o0, sPOINT, sRATE, SetFloats(GetParam(o0.grp, sPOINT, sRATE), <<prate>>))
      o2 == SetP(o1, sANALOG, sRATE, SetFloats(GetParam(o1.grp, sANALOG, sRATE), <<arate>>))
      o3 == UpdateParameters([o2 EXCEPT !.hdr = UpdateHeader(o2.hdr, o2.grp, <<>>, TRUE)], <<>>, pn, an)
      frames == [f \in 1..nf |-> MkFrame(pn, IF an = <<>> THEN 0 ELSE ns, an, f)]
  IN UpdateParameters(o3, frames, <<>>, <<>>)
Build(pn, an, ns, nf) == BuildR(pn, an, ns, nf, FOfNat(100), FOfNat(100 * (IF ns = 0 THEN 1 ELSE ns)))
\* 59.94 Hz points, 3 x 59.94 Hz analogs as the nearest floats: the exact quotient of the two floats is 2.99999994, the single-precision
\* division the reader performs gives 3.0 (header word: 3 sub-frames)
C_ntsc == BuildR(<<p1>>, <<a1>>, 3, 2, <<143, 194, 111, 66>>, <<235, 209, 51, 67>>)
MkP(n, d, l, t, dim, v) == [n |-> n, d |-> d, l |-> l, t |-> t, dim |-> dim, v |-> v]
LongDesc(n) == [i \in 1..n |-> 65 + (i % 26)]
ExtraGroup ==
  [n |-> <<77, 105, 120, 101, 100>>, d |-> <<103, 114, 112>>, l |-> 1, p |-> <<      \* "Mixed", locked, with a description
     MkP(<<66, 89, 84, 69, 83>>, <<>>, 0, TBYTE, <<3>>, <<0, 127, -128>>),            \* byte-typed values
     MkP(<<67, 117, 98, 101>>, LongDesc(130), 1, TINT, <<2, 1, 3>>, <<1, -2, 3, -4, 32767, -32768>>),   \* 3-D, 130-character description, locked
     MkP(<<72, 69, 76, 76, 79>>, <<>>, 0, TCHAR, <<8>>, <<<<104, 101, 108, 108, 111>>>>),               \* padded one-dimensional string
     MkP(<<84, 88, 84>>, <<>>, 0, TCHAR, <<4, 2>>, <<<<97, 98>>, <<>>>>),                               \* padded cells, one of them empty
     MkP(<<69, 77, 80, 84, 89>>, <<>>, 0, TFLOAT, <<0>>, <<>>),
     MkP(<<70, 76, 84>>, <<>>, 0, TFLOAT, <<2>>, <<<<0, 0, 128, 127>>, <<1, 0, 0, 128>>>>),             \* +inf, negative denormal
     MkP(<<79, 78, 69>>, <<>>, 0, TCHAR, <<1>>, <<<<122>>>>),
     MkP(<<76, 79, 78, 71>>, <<>>, 0, TCHAR, <<200>>, <<<<104, 105>>>>) >>]                              \* one-dimensional text declared 200 long, holding "hi"                                        \* one character
WithEvents(o) == [o EXCEPT !.hdr.nev = 2, !.hdr.evt = [i \in 1..18 |-> IF i = 1 THEN <<0, 0, 128, 63>> ELSE IF i = 2 THEN <<0, 0, 32, 65>> ELSE FZero],
                           !.hdr.evd = [i \in 1..9 |-> IF i = 1 THEN 257 ELSE 0],
                           !.hdr.evl = [i \in 1..18 |-> IF i = 1 THEN <<69, 86, 84, 49>> ELSE IF i = 2 THEN <<69, 50>> ELSE <<>>], !.hdr.gap = 65535]
\* first frame number 5: header first/last shifted, POINT:FRAMES unchanged
Shifted(o) == [o EXCEPT !.hdr.first = 4, !.hdr.last = 4 + Len(o.frm) - 1]
\* one label fewer / one more than points in use: the reader falls back to unlabeled_point_<i>
Relabel(o, k) ==
  LET lab == GetParam(o.grp, sPOINT, sLABELS)
      nl == IF k < 0 THEN SubSeq(lab.v, 1, Len(lab.v) - 1) ELSE Append(lab.v, <<120, 120>>)
      names == [i \in 1..Len(lab.v) |-> IF i <= Len(nl) THEN nl[i] ELSE UnlabeledP(i - 1)]
      o1 == SetP(o, sPOINT, sLABELS, SetStrs(lab, nl))
  IN [o1 EXCEPT !.frm = [f \in 1..Len(o.frm) |-> [o.frm[f] EXCEPT !.p = [i \in 1..Len(@) |-> [@[i] EXCEPT !.n = names[i]]]]]]
\* the same for channels: fewer / more ANALOG:LABELS than channels in use (unlabeled_analog_<i>)
RelabelA(o, k) ==
  LET lab == GetParam(o.grp, sANALOG, sLABELS)
      nl == IF k < 0 THEN SubSeq(lab.v, 1, Len(lab.v) - 1) ELSE Append(lab.v, <<121, 121>>)
      names == [i \in 1..Len(lab.v) |-> IF i <= Len(nl) THEN nl[i] ELSE UnlabeledA(i - 1)]
      o1 == SetP(o, sANALOG, sLABELS, SetStrs(lab, nl))
  IN [o1 EXCEPT !.frm = [f \in 1..Len(o.frm) |-> [o.frm[f] EXCEPT !.a = [s \in 1..Len(@) |-> [i \in 1..Len(@[s]) |-> [@[s][i] EXCEPT !.n = names[i]]]]]]]
\* "Optotrak": an ANALOG group without any parameter (only meaningful without channels)
AnalogEmpty(o) == [o EXCEPT !.grp[GroupIdx(o.grp, sANALOG)].p = <<>>]
\* a parameter record longer than 32767 bytes (the next-offset is an unsigned 16-bit word)
BigGroup == [n |-> <<67, 65, 76, 73, 66>>, d |-> <<>>, l |-> 0, p |-> <<
               MkP(<<84, 65, 66, 76, 69>>, <<116>>, 0, TFLOAT, <<128, 65>>, [i \in 1..8320 |-> <<i % 256, (i \div 256) % 256, 128, 63>>]),
               MkP(<<65, 70, 84, 69, 82>>, <<>>, 0, TINT, <<2>>, <<7, -7>>) >>]
C_small  == Build(<<p1>>, <<a1>>, 2, 1)
C_two    == Build(<<p1, p2>>, <<a1, a2>>, 1, 2)
C_pts    == Build(<<p1, p2>>, <<>>, 0, 2)
C_ana    == Build(<<>>, <<a1>>, 2, 2)
C_none   == Build(<<>>, <<>>, 0, 0)
Contents == <<   \* (small: pre-evaluated once)
  C_small, AddG(C_small, ExtraGroup), WithEvents(C_two), Shifted(C_two), Relabel(C_two, -1), Relabel(C_pts, 1),
  AnalogEmpty(C_pts), C_ana, C_none, AddG(C_none, ExtraGroup), RelabelA(C_ana, -1), RelabelA(C_two, -1), RelabelA(C_small, 1), AddG(C_pts, BigGroup), C_ntsc >>
(* ---- layouts ---- *)
L0(n) == DefaultLayout(n)
Layouts(n) == <<
  L0(n),
  [L0(n) EXCEPT !.zeros = 3],
  [L0(n) EXCEPT !.paddr = 3],
  [L0(n) EXCEPT !.zeroPrologue = TRUE],
  [L0(n) EXCEPT !.rev = TRUE, !.gids = [i \in 1..n |-> n + 1 - i]],                    \* out-of-order ids and records
  [L0(n) EXCEPT !.gids = [i \in 1..n |-> IF i = n THEN n + 2 ELSE i]],                 \* sparse ids
  [L0(n) EXCEPT !.scalarAsArray = TRUE],
  [L0(n) EXCEPT !.zeros = 1, !.paddr = 3, !.zeroPrologue = TRUE, !.rev = TRUE] >>
\* (operators with a parameter are evaluated on demand; TLC pre-evaluates every parameterless constant definition at start-up)
LayoutFile(k) == LET c == Contents[((k - 1) \div 8) + 1]  lay == Layouts(Len(c.grp))[((k - 1) % 8) + 1] IN [src |-> c, lay |-> lay, bytes |-> EncodeWith(c, lay)]
NC == Len(Contents)
NLayoutFiles == IF Full THEN NC * 8 ELSE 24 + (NC - 3) * 3
\* index of the k-th selected (content, layout) pair in the full enumeration
LayoutSelIdx(k) == IF Full \/ k <= 24 THEN k ELSE (3 + (k - 25) \div 3) * 8 + <<1, 5, 8>>[((k - 25) % 3) + 1]
(* ---- C12: bit patterns ---- *)
IntParam(name, lo) == MkP(name, <<>>, 0, TINT, <<128, 8>>, [i \in 1..1024 |-> lo + i - 1])
ByteParam(x) == MkP(<<66>>, <<>>, 0, TBYTE, <<128, 2>>, [i \in 1..256 |-> i - 129])
IntFile(k) == AddG(C_none, [n |-> <<73, 78, 84, 83>>, d |-> <<>>, l |-> 0, p |->
                 [j \in 1..4 |-> IntParam(<<73, 48 + j>>, -32768 + ((k - 1) * 4 + (j - 1)) * 1024)]])
\* float patterns: every exponent with both signs, mantissa 0 / 1 / all ones / arbitrary
FPat(sign, e, m) == LET mant == IF m = 0 THEN 0 ELSE IF m = 1 THEN 1 ELSE IF m = 2 THEN 8388607 ELSE 5592405 IN
                    <<mant % 256, (mant \div 256) % 256, (mant \div 65536) + (e % 2) * 128, (e \div 2) + sign * 128>>
FloatFile(sign, m) ==
  LET o == Build(<<p1, p2>>, <<a1>>, 1, 32)
      val(f, i, c) == FPat(sign, ((f - 1) * 8 + (i - 1) * 4 + (c - 1)) % 256, m)
      o1 == [o EXCEPT !.frm = [f \in 1..32 |-> [@[f] EXCEPT !.p = [i \in 1..2 |-> [@[i] EXCEPT !.v = [c \in 1..4 |-> val(f, i, c)]]],
                                                            !.a = [s \in 1..1 |-> [i \in 1..1 |-> [@[s][i] EXCEPT !.v = FPat(1 - sign, (f * 8 - 1) % 256, m)]]]]]]
      o2 == AddG(o1, [n |-> <<70>>, d |-> <<>>, l |-> 0, p |-> <<MkP(<<70, 80>>, <<>>, 0, TFLOAT, <<128, 2>>, [i \in 1..256 |-> FPat(sign, i - 1, m)])>>])
  IN [o2 EXCEPT !.hdr.evt = [i \in 1..18 |-> FPat(sign, (i * 14) % 256, m)]]
HeaderWordFile(w) == [C_none EXCEPT !.hdr.gap = w, !.hdr.klp = w, !.hdr.fbkl = w, !.hdr.fcp = w, !.hdr.nev = w, !.hdr.evd = [i \in 1..9 |-> IF i % 2 = 1 THEN w ELSE 65535 - w]]
WordValues == <<0, 1, 2, 127, 128, 255, 256, 32767, 32768, 65535>>
PatternSrc(k) == IF k <= 16 THEN IntFile(k)
                 ELSE IF k = 17 THEN AddG(C_none, [n |-> <<66>>, d |-> <<>>, l |-> 0, p |-> <<ByteParam(0)>>])
                 ELSE IF k <= 21 THEN FloatFile((k - 18) % 2, k - 18)
                 ELSE HeaderWordFile(WordValues[k - 21])
NPatternFiles == 21 + Len(WordValues)
PatternFile(k) == LET c == PatternSrc(k) IN [src |-> c, lay |-> L0(Len(c.grp)), bytes |-> EncodeWith(c, L0(Len(c.grp)))]
FileOf(k) == IF Variant = "layout" THEN LayoutFile(LayoutSelIdx(k)) ELSE PatternFile(k)
NFiles == IF Variant = "layout" THEN NLayoutFiles ELSE NPatternFiles
MC_Files == [k \in 1..NFiles |-> FileOf(k).bytes]
SameContent(c1, c2) == c1.hdr = c2.hdr /\ c1.frm = c2.frm /\ Len(c1.grp) = Len(c2.grp) /\ SeqToSet(c1.grp) = SeqToSet(c2.grp)
\* the oracle: encoder, independent decoder and reader model agree on every generated file
FormatOracle ==
  \A k \in 1..NFiles :
     LET f == FileOf(k)  d == Decode(f.bytes)  r == ReaderModel(f.bytes) IN
     \/ /\ "bad" \notin DOMAIN d /\ SameContent(d, Content(f.src))      \* (groups carry no order of their own: ids may be permuted)
        /\ r.out = "ok" /\ r.end = Len(f.bytes) /\ Content(r.obj) = d
     \/ PrintT(<<"FormatOracle fails for file", k, IF "bad" \in DOMAIN d THEN d ELSE <<d.hdr = Content(f.src).hdr, d.grp = Content(f.src).grp, d.frm = Content(f.src).frm>>,
                 r.out, IF r.out = "ok" THEN <<Content(r.obj).hdr = d.hdr, Content(r.obj).grp = d.grp, Content(r.obj).frm = d.frm>> ELSE <<>> >>) /\ FALSE
ASSUME FormatOracle
\* C12 at design level: the byte <-> integer conversions are exact for every value
ASSUME Lemma_S16_LE16 /\ Lemma_U16_LE16 /\ Lemma_S8_Low /\ Lemma_S16_Range /\ Lemma_S16_Inj

MC_PNames == {}  MC_ANames == {}  MC_PRates == {}  MC_ARates == {}
MC_FrameKinds == {}  MC_ColKinds == {}  MC_Tags == {1}  MC_CallerIds == {}  MC_UserParams == <<>>  MC_LockNames == {}
MC_AliasGroups == {}
Dump == ~Sampled(Len(hist)) \/ PrintT(ToJson([path |-> hist, op |-> lastOp', out |-> lastOut', post |-> Abs(obj'),
                       bytes |-> IF lastOp'.op = "Reload" /\ lastOut' # "range_error" THEN WriterModel(obj) ELSE <<>>]))
=========================================================================
