---- MODULE TF ----
EXTENDS C3DFormat, TLC
o == DefaultObject
b == WriterModel(o)
r == ReaderModel(b)
ASSUME PrintT(<<"diff", {<<i, k, r.obj.grp[i].p[k], o.grp[i].p[k]>> : i \in 1..3, k \in 1..7} \cap {x \in {<<i, k, r.obj.grp[i].p[k], o.grp[i].p[k]>> : i \in 1..3, k \in 1..7} : x[3] # x[4]}>>)
ASSUME PrintT(<<"hdr", {f \in DOMAIN o.hdr : o.hdr[f] # r.obj.hdr[f]}, Content(r.obj).hdr = Content(o).hdr, Content(r.obj).grp = Content(o).grp, Content(r.obj).frm = Content(o).frm >>)
====
