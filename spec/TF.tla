---- MODULE TF ----
EXTENDS MC_Format
f == AllFiles[41]
ASSUME PrintT(<<"len", Len(f.bytes)>>)
ASSUME PrintT(<<"src", Content(f.src).frm>>)
ASSUME PrintT(<<"dec", Decode(f.bytes).frm>>)
====
