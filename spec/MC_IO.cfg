CONSTANTS
  Variant = "base"
  NP = 1
  NA = 1
  PNames <- MC_PNames
  ANames <- MC_ANames
  PRates <- MC_PRates
  ARates <- MC_ARates
  MaxFrames = 1
  MaxPts = 1
  MaxCh = 1
  FrameKinds <- MC_FrameKinds
  ColKinds <- MC_ColKinds
  Tags <- MC_Tags
  IdxSlack = 1
  UserParams <- MC_UserParams
  LockNames <- MC_LockNames
  CallerIds <- MC_CallerIds
  Files <- MC_Files
  AliasGroups <- MC_AliasGroups
  WithAlias = FALSE
  WithEdits = FALSE
  WithReload = TRUE
  Lookups = FALSE
  Phased = TRUE
INIT Init
NEXT Next
VIEW View
INVARIANT MandInv
INVARIANT IOInv
PROPERTY RefusedUnchanged
CHECK_DEADLOCK FALSE
