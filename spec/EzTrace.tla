------------------------------ MODULE EzTrace ------------------------------
(* Trace specification (direction A): a recorded execution of the real library - one ndjson   *)
(* line per public call, with its arguments, outcome class and the projected state after the  *)
(* call - is accepted iff every line is the corresponding action of EzApi taken from the        *)
(* specification's current state, with the recorded outcome and the recorded state.             *)
(* Every invariant of the specification is evaluated after every line. The traces come from     *)
(* seeded random histories far beyond the model-checked bounds, and (through the guarded hooks) *)
(* from the repository's own test suite.                                                        *)
EXTENDS EzApi, Json, IOUtils

MC_AliasGroups == {}
T_Empty == {}
T_EmptySeq == <<>>
TraceLog == ndJsonDeserialize(IOEnv.TRACE)
VARIABLES l, obs       \* obs: <<"ok">> or a description of how the last line differs from the specification's step
tvars == <<vars, l, obs>>

\* the harness' frame JSON is the specification's frame (a caller-side "ctor" flag is dropped by NormFrame)
Ev == TraceLog[l]
DiffOf(ev) ==
  LET a == Abs(obj')
      hd == IF "post" \in DOMAIN ev THEN {f \in DOMAIN a.hdr : f \notin DOMAIN ev.post.hdr \/ a.hdr[f] # ev.post.hdr[f]} ELSE {}
      gd == IF "post" \in DOMAIN ev /\ a.grp # ev.post.grp
              THEN IF Len(a.grp) # Len(ev.post.grp) THEN {<<"grp.#", Len(a.grp), Len(ev.post.grp)>>}
                   ELSE {<<"grp", i, a.grp[i].n>> : i \in {j \in 1..Len(a.grp) : a.grp[j] # ev.post.grp[j]}} ELSE {}
      fd == IF "post" \in DOMAIN ev /\ a.frm # ev.post.frm
              THEN IF Len(a.frm) # Len(ev.post.frm) THEN {<<"frm.#", Len(a.frm), Len(ev.post.frm)>>}
                   ELSE {<<"frm", i>> : i \in {j \in 1..Len(a.frm) : a.frm[j] # ev.post.frm[j]}} ELSE {}
      pd == IF "post" \in DOMAIN ev /\ a.prm # ev.post.prm THEN {"prm"} ELSE {}
      \* (the recording hooks only know that a call threw, not the class)
      od == IF (ev.out = "threw" /\ lastOut' = "ok") \/ (ev.out # "threw" /\ lastOut' # ev.out) THEN {<<"out", lastOut', ev.out>>} ELSE {}
      sd == IF "sets" \in DOMAIN ev /\ lastSets' # ev.sets THEN {<<"sets", lastSets', ev.sets>>} ELSE {}
  IN hd \cup gd \cup fd \cup pd \cup od \cup sd

TraceInit == Init /\ l = 1 /\ obs = <<"ok">>
TNew == Ev.e = "New" /\ Done(DefaultObject, [op |-> "New"], "ok", <<>>) /\ UNCHANGED callers
TAddFrame == Ev.e = "AddFrame" /\ "c" \notin DOMAIN Ev.args /\ AddFrameF(NormFrame(Ev.args.frame), Ev.args.idx, Ev.args) /\ UNCHANGED callers
TDeclPoint == Ev.e = "DeclPoint" /\ DeclPoint(Ev.args.n)
TDeclAnalog == Ev.e = "DeclAnalog" /\ DeclAnalog(Ev.args.n)
TPointCols == Ev.e = "AddPointCols" /\ AddPointColsF([f \in 1..Len(Ev.args.frames) |-> NormFrame(Ev.args.frames[f])], Ev.args) /\ UNCHANGED callers
TAnalogCols == Ev.e = "AddAnalogCols" /\ AddAnalogColsF([f \in 1..Len(Ev.args.frames) |-> NormFrame(Ev.args.frames[f])], Ev.args) /\ UNCHANGED callers
TSetParam == Ev.e = "SetParam" /\ SetParam(Ev.args.g, Ev.args.p)
TLock == Ev.e \in {"LockGroup", "UnlockGroup"} /\ LockGroup(Ev.args.g, IF Ev.e = "LockGroup" THEN 1 ELSE 0)
TReload == Ev.e = "Reload" /\ Reload
\* write(path): nothing changes (C14); the file itself is checked where its bytes are recorded (replay)
TSave == Ev.e = "Save" /\ Fits(obj) /\ Done(obj, [op |-> "Save"], "ok", <<>>) /\ UNCHANGED callers
TGet == Ev.e = "Get" /\ Get([op |-> "Get", post |-> 0] @@ Ev.args) /\ (lastOut' = "ok" => lastRes' = Ev.res)
\* a line whose call lies outside the modelled alphabet (only the repository's own tests produce them): the specification
\* re-synchronises on the recorded state; the number of such steps is reported, never silent
THavoc == Ev.e = "Havoc" /\ obj' = StateOfPost(Ev.post) /\ lastOp' = [op |-> "Havoc"] /\ lastOut' = Ev.out /\ lastSets' = <<>> /\ lastRes' = <<>>
          /\ hist' = hist /\ inScope' = FALSE /\ UNCHANGED callers
TraceStep ==
  /\ l <= Len(TraceLog)
  /\ \/ TNew \/ TSave \/ TAddFrame \/ TDeclPoint \/ TDeclAnalog \/ TPointCols \/ TAnalogCols \/ TSetParam \/ TLock \/ TReload \/ TGet
     \/ THavoc
  /\ obs' = (IF Ev.e = "Havoc" \/ DiffOf(Ev) = {} THEN <<"ok">> ELSE <<"line", l, Ev.e, DiffOf(Ev)>>)
  /\ l' = l + 1
TraceSpec == TraceInit /\ [][TraceStep]_tvars
TraceAccepted == LET d == TLCGet("stats").diameter IN
                 IF d - 1 = Len(TraceLog) THEN TRUE ELSE PrintT(<<"TRACE-REJECTED-AT", d>>) /\ FALSE
\* the real library did what the specification's action does (every line)
Conforms == obs[1] = "ok"
\* invariants evaluated after every accepted line
TraceAgreement == (inScope /\ Mand(obj.grp)) => (AgreePoints(obj) /\ AgreeFrames(obj) /\ AgreeAnalogs(obj) /\ AgreeRate(obj))
TraceIO == (l % 5 = 0 /\ inScope) => IOInv          \* the file-format model is evaluated on every fifth in-scope state of a trace (cost)
=============================================================================
