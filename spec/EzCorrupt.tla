----------------------------- MODULE EzCorrupt -----------------------------
(* C16: loading damaged files. The specification defines the corruption space over seed    *)
(* files (truncations, byte overwrites with boundary values, structure-aware corruption of   *)
(* every header word and every field of every parameter-section record, found by the         *)
(* decoder's own record parser) and the outcome language of a load: it returns an object     *)
(* ("loaded") or throws a standard exception ("refused") - nothing else. TLC enumerates the   *)
(* mutation descriptors; the harness applies them and reports what the real reader did.       *)
EXTENDS C3DFormat, TLC, Json, IOUtils
CONSTANTS NSeeds, Stride      \* number of seed files (read from the environment), stride of the plain overwrite sweep

SeedBytes(k) == ndJsonDeserialize(IOEnv.SEEDS)[k].bytes
Byte1 == {0, 1, 127, 128, 255}
Word2 == {0, 1, 255, 256, 32767, 32768, 65535}
\* fields: [pos, w] (w = 1 or 2 bytes), computed from the file itself
HeaderFields == {[pos |-> 0, w |-> 1], [pos |-> 1, w |-> 1]} \cup {[pos |-> p, w |-> 2] : p \in {2, 4, 6, 8, 10, 12, 14, 16, 18, 20, 22, 294, 296, 298, 300}}
RecFields(r) ==
  IF r.kind = "end" THEN {[pos |-> r.pos, w |-> 1]}
  ELSE {[pos |-> r.pos, w |-> 1], [pos |-> r.pos + 1, w |-> 1], [pos |-> r.offPos, w |-> 2]}
       \cup (IF r.kind = "group" THEN {[pos |-> r.offPos + 2, w |-> 1]}
             ELSE {[pos |-> r.offPos + 2, w |-> 1], [pos |-> r.offPos + 3, w |-> 1], [pos |-> r.dpos + r.dbytes, w |-> 1]}
                  \cup {[pos |-> r.offPos + 3 + i, w |-> 1] : i \in 1..r.ndims})
Fields(b) ==
  LET ps == BlockSize * (B(b, 0) - 1)
      recs == Chain(b, ps + 4, MaxRecords)
  IN HeaderFields \cup {[pos |-> ps + i, w |-> 1] : i \in 0..3} \cup UNION {RecFields(recs[k]) : k \in 1..Len(recs)}
FieldMutations(b) ==
  {[kind |-> "set", pos |-> <<f.pos>>, val |-> <<v>>] : f \in {g \in Fields(b) : g.w = 1}, v \in Byte1}
  \cup {[kind |-> "set", pos |-> <<f.pos, f.pos + 1>>, val |-> LE16(v)] : f \in {g \in Fields(b) : g.w = 2}, v \in Word2}
Truncations(b) == {[kind |-> "trunc", n |-> n] : n \in 0..(Len(b) - 1)}
SweepPos(b) == {q \in 0..(Len(b) - 1) : q % Stride = 0 \/ q < 48}
Overwrites(b) == {[kind |-> "set", pos |-> <<p>>, val |-> <<v>>] : p \in SweepPos(b), v \in Byte1}
                 \cup {[kind |-> "set", pos |-> <<p>>, val |-> <<(p * 37 + 11) % 256>>] : p \in SweepPos(b)}
\* pairs inside one record: the name length together with the next-offset, the number of dimensions together with the first dimension
PairMutations(b) ==
  LET ps == BlockSize * (B(b, 0) - 1)
      recs == Chain(b, ps + 4, MaxRecords)
      prm == {k \in 1..Len(recs) : recs[k].kind = "param"}
  IN {[kind |-> "set", pos |-> <<recs[k].pos, recs[k].offPos, recs[k].offPos + 1>>, val |-> <<v, w[1], w[2]>>] : k \in prm, v \in {1, 127, 255}, w \in {<<0, 0>>, <<255, 255>>}}
     \cup {[kind |-> "set", pos |-> <<recs[k].offPos + 3, recs[k].offPos + 4>>, val |-> <<v, w>>] : k \in prm, v \in {1, 7, 8, 255}, w \in {0, 255}}
\* the dimension field as a whole: k dimensions (1..7) taken from boundary patterns (all 255; all 255 with a zero at the end, in the middle, at the start)
DimPattern(k, z) == [i \in 1..k |-> IF i = z THEN 0 ELSE 255]
DimsMutations(b) ==
  LET ps == BlockSize * (B(b, 0) - 1)
      recs == Chain(b, ps + 4, MaxRecords)
      prm == {k \in 1..Len(recs) : recs[k].kind = "param"}
  IN {[kind |-> "set", pos |-> [i \in 1..(n + 1) |-> recs[k].offPos + 2 + i], val |-> <<n>> \o DimPattern(n, z)] : k \in prm, n \in {2, 4, 7}, z \in {0, 1, 2, 4, 7}}
Mutations(b) == Truncations(b) \cup Overwrites(b) \cup FieldMutations(b) \cup PairMutations(b) \cup DimsMutations(b)
\* a mutation that changes nothing is not a corruption
Changes(b, m) == IF m.kind = "trunc" THEN m.n < Len(b) ELSE \E i \in 1..Len(m.pos) : m.pos[i] < Len(b) /\ B(b, m.pos[i]) # m.val[i]
Emit == \A k \in 1..NSeeds : LET b == SeedBytes(k) IN \A m \in {x \in Mutations(b) : Changes(b, x)} : PrintT(ToJson([seed |-> k] @@ m))
ASSUME Emit

(* the outcome language *)
VARIABLE outcome
Init == outcome = "none"
Load == outcome' \in {"loaded", "refused"}
Next == Load
Outcomes == outcome \in {"none", "loaded", "refused"}
=============================================================================
