------------------------------ MODULE MC_IO ------------------------------
(* Bounded instance for C01 / C03 / C04 / C14: the construction histories of MC_Shape and    *)
(* parameter edits of every type, with save+load as an action. In every reachable state TLC   *)
(* evaluates the file-format model: RoundTrip (C01), WrittenFileConsistent (C03),             *)
(* SaveIdempotent (C04/C14). Every transition, with the bytes the specification expects a     *)
(* save to produce, is replayed on the real object and real files.                            *)
EXTENDS EzApi, Json
CONSTANTS NP, NA, Variant      \* Variant: "base" (parameters of every type, padded text cells) | "values" (calibration parameters, NaN samples, a refused set)

p1 == <<112,49>>  p2 == <<112,50>>  a1 == <<97,49>>  a2 == <<97,50>>
gG1 == <<103,49>>   \* "g1": a lower-case group name (stored upper-case in the file)
nA == <<97>>  nB == <<66>>
MC_PNames == IF NP >= 2 THEN {p1, p2} ELSE {p1}
MC_ANames == IF NA >= 2 THEN {a1, a2} ELSE IF NA = 1 THEN {a1} ELSE {}
MC_PRates == {FOfNat(100)}
MC_ARates == {FOfNat(200), FOfNat(300)}      \* sub-frame ratio 2 or 3, also changed (in both directions) while channels are declared
MC_FrameKinds == IF Variant = "values" THEN {"conf", "nan"} ELSE {"conf"}
MC_ColKinds == {"ok1"}
MC_Tags == {1}
P(n, d, l, sets) == [n |-> n, d |-> d, l |-> l, sets |-> sets]
S(t, v, dim) == [t |-> t, v |-> v, dim |-> dim, scalar |-> 0]
AllUserParams == <<
  [g |-> gG1, p |-> P(nA, <<100, 101, 115, 99>>, 1, <<S(TINT, <<7, -3>>, <<>>)>>)],
  [g |-> gG1, p |-> P(nB, <<>>, 0, <<S(TCHAR, <<<<97, 98>>, <<99>>, <<>>>>, <<>>)>>)],
  [g |-> gG1, p |-> P(nB, <<>>, 0, <<S(TFLOAT, <<FOne, <<1,2,3,4>>, FMinusOne, <<0,0,192,127>>>>, <<2, 2>>)>>)],
  [g |-> gG1, p |-> P(nA, <<>>, 0, <<S(TCHAR, <<<<120>>>>, <<>>)>>)],
  [g |-> gG1, p |-> P(nB, <<>>, 0, <<S(TCHAR, <<[i \in 1..200 |-> 65 + (i % 26)], <<>>, <<104, 105>>>>, <<>>)>>)],    \* cells padded by up to 200 blanks
  \* calibration of the analog channels, by hand: samples are stored and loaded as they are, whatever SCALE / OFFSET say
  [g |-> sANALOG, p |-> P(sSCALE, <<>>, 0, <<S(TFLOAT, <<FOfNat(2)>>, <<>>)>>)],
  [g |-> sANALOG, p |-> P(sOFFSET, <<>>, 0, <<S(TINT, <<5>>, <<>>)>>)],
  \* a refused set (3 announced, 2 given) after an accepted one: the parameter keeps its one value and its dimension, and is saved so
  [g |-> gG1, p |-> P(<<67>>, <<>>, 0, <<S(TINT, <<7>>, <<>>), S(TINT, <<7, -3>>, <<3>>)>>)],
  \* a byte-typed parameter (taken from a loaded object, see DonorFile): one byte per value on the disk, signed
  [g |-> gG1, p |-> P(<<68>>, <<98>>, 0, <<S(TBYTE, <<3, -2, 127, -128, 0>>, <<>>)>>)]
>>
MC_UserParams == IF Variant = "values" THEN SubSeq(AllUserParams, 6, 9) ELSE SubSeq(AllUserParams, 1, 5)
MC_LockNames == {}
MC_CallerIds == {}
MC_Files == <<>>
MC_AliasGroups == {}
Dump == ~Sampled(Len(hist)) \/ PrintT(ToJson([path |-> hist, op |-> lastOp', out |-> lastOut', sets |-> lastSets', post |-> Abs(obj'),
                       bytes |-> IF lastOp'.op = "Reload" /\ lastOut' # "range_error" THEN WriterModel(obj) ELSE <<>>]))
=========================================================================
