INIT TraceInit
NEXT TraceStep
INVARIANT ReportedOrComplete
POSTCONDITION TraceAccepted
CHECK_DEADLOCK FALSE
