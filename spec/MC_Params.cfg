CONSTANTS
  Variant = "triples"
  MaxVals = 2
  Deep = FALSE
  PNames <- MC_PNames
  ANames <- MC_ANames
  PRates <- MC_PRates
  ARates <- MC_ARates
  MaxFrames = 0
  MaxPts = 0
  MaxCh = 0
  FrameKinds <- MC_FrameKinds
  ColKinds <- MC_ColKinds
  Tags <- MC_Tags
  IdxSlack = 0
  UserParams <- MC_UserParams
  LockNames <- MC_LockNames
  CallerIds <- MC_CallerIds
  Files <- MC_Files
  AliasGroups <- MC_AliasGroups
  WithAlias = FALSE
  WithEdits = FALSE
  WithReload = FALSE
  Lookups = FALSE
  Phased = FALSE
INIT Init
NEXT Next
VIEW View
INVARIANT MandInv
INVARIANT AgreePointsInv
INVARIANT AgreeFramesInv
INVARIANT AgreeRateInv
INVARIANT ShapeRule
PROPERTY RefusedUnchanged
PROPERTY ParamEditOK
PROPERTY LockOK
CHECK_DEADLOCK FALSE
