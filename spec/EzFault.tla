------------------------------ MODULE EzFault ------------------------------
(* C15: saving under an environment that may refuse the destination or any write.         *)
(* The file content is abstracted to its length L (that the bytes which do reach the disk  *)
(* are a prefix of the fault-free content is a separate flag of the observation).          *)
(* A save is one atomic step of the caller: it returns normally ("ok") or throws.          *)
EXTENDS Naturals, Integers, Sequences

FaultKinds == {"none", "fsize", "missing_dir", "is_dir", "dev_full", "readonly"}
OpenFaults == {"missing_dir", "is_dir", "readonly"}
\* does the environment accept the complete content of length L?
Accepts(kind, k, L) == kind = "none" \/ (kind = "fsize" /\ k >= L)

VARIABLES fault, len, disk, outcome
vars == <<fault, len, disk, outcome>>

\* the specification of write(): the complete content and a normal return, or an I/O failure (and whatever prefix the
\* environment accepted, possibly no file at all)
SaveUnderFault(kind, k, L) ==
  /\ fault' = [kind |-> kind, k |-> k] /\ len' = L
  /\ IF Accepts(kind, k, L)
       THEN disk' = L /\ outcome' = "ok"
       ELSE outcome' = "ios_failure" /\ disk' \in (-1)..(IF kind = "fsize" THEN k ELSE L)   \* -1: no file
Init == fault = [kind |-> "none", k |-> 0] /\ len = 0 /\ disk = 0 /\ outcome = "ok"
Next == \E kind \in FaultKinds, L \in 0..3, k \in 0..4 : SaveUnderFault(kind, k, L)
Spec == Init /\ [][Next]_vars

\* C15: a normal return means the complete content is on the disk; a lost byte means an I/O failure was thrown
ReportedOrComplete == (outcome = "ok" => disk = len) /\ (disk # len => outcome = "ios_failure")
=============================================================================
